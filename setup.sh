#!/bin/sh
# Offline setup: nothing is installed.  Verifies the interpreter, that the working tree imports,
# and reports which optional environment features (strace, loopback, pty) are available.
cd "$(dirname "$0")" || exit 1
REPO="${VERIF_REPO:-/repo}"
test -x /venv/bin/python || { echo "missing /venv/bin/python"; exit 1; }
PYTHONPATH="$REPO/src:$PWD" PYTHONDONTWRITEBYTECODE=1 /venv/bin/python - <<'PY' || exit 1
import os, shutil, socket, sys
import aiomysensors, marshmallow, aiofiles, aiomqtt, awesomeversion, serial_asyncio  # noqa: F401
print("python", sys.version.split()[0], "aiomysensors from", aiomysensors.__file__)
print("strace:", shutil.which("strace") or "absent (C15 falls back to the in-process recorder)")
try:
    s = socket.socket(); s.bind(("127.0.0.1", 0)); s.close(); print("loopback: ok")
except OSError as err:
    print("loopback: unavailable", err)
try:
    a, b = os.openpty(); os.close(a); os.close(b); print("pty: ok")
except OSError as err:
    print("pty: unavailable", err)
PY
mkdir -p evidence replays
echo "setup ok"
