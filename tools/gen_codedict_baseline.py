#!/venv/bin/python
"""Writes vf/codedict_baseline.json: the dictionary tokens of /repo's CURRENT tree (run after a new fix commit).
PYTHONPATH must point at /repo/src and /verif (tools/gen_codedict_baseline.sh does that)."""
import json
from pathlib import Path

from vf import codedict

codedict._BASELINE = set()
tokens = set()
for modules in (codedict.HANDLER_MODULES, codedict.TRANSPORT_MODULES, codedict.PERSISTENCE_MODULES):
    tokens.update(codedict.tokens(modules))
path = Path(__file__).resolve().parent.parent / "vf" / "codedict_baseline.json"
path.write_text(json.dumps(sorted(tokens), indent=0, ensure_ascii=False) + "\n")
print(len(tokens), "tokens ->", path)

numbers = sorted(set(codedict.numbers(codedict.ALL_MODULES)))
npath = path.with_name("codedict_numbers_baseline.json")
npath.write_text(json.dumps(numbers) + "\n")
print(len(numbers), "numbers ->", npath)
