#!/bin/sh
# usage: tools/try_mutant.sh <patch.diff> <Cxx> [tier]   -> runs the check against a scratch copy of /repo HEAD + patch
# Scratch worktree lives outside /repo and /verif and is removed afterwards.
PATCH="$(realpath "$1")"; PID="$2"; TIER="${3:-quick}"
WT="/tmp/vf-mt-$$"
git -C /repo worktree add -q --detach "$WT" HEAD || exit 3
trap 'git -C /repo worktree remove --force "$WT" >/dev/null 2>&1' EXIT
git -C "$WT" apply "$PATCH" || { echo "PATCH DOES NOT APPLY"; exit 3; }
cd "$(dirname "$0")/.." && VERIF_REPO="$WT" ./check "$PID" --tier "$TIER" 2>&1 | grep -E "VIOLATION|INCONCLUSIVE|held on|violation key|KNOWN" | head -12
