#!/bin/sh
# usage: tools/try_mutant.sh <patch.diff> <Cxx> [tier]   -> runs the check against a scratch copy of /repo HEAD + patch
# Scratch worktree lives outside /repo and /verif and is removed afterwards.
PATCH="$(realpath "$1")"; PID="$2"; TIER="${3:-quick}"
WT="/tmp/vf-mt-$$"
git -C /repo worktree add -q --detach "$WT" HEAD || exit 3
trap 'git -C /repo worktree remove --force "$WT" >/dev/null 2>&1' EXIT
BASE=0ed460a   # commit the seeded / benign patches were written against
git -C "$WT" apply "$PATCH" 2>/dev/null || git -C "$WT" apply --3way "$PATCH" >/dev/null 2>&1 || {
  git -C "$WT" reset -q --hard && git -C "$WT" checkout -q --detach "$BASE" && git -C "$WT" apply "$PATCH" && echo "NOTE: patch applied on its base commit $BASE (conflicts with later fix commits on HEAD)"; } || { echo "PATCH DOES NOT APPLY"; exit 3; }
cd "$(dirname "$0")/.." && VERIF_REPO="$WT" ./check "$PID" --tier "$TIER" 2>&1 | grep -E "VIOLATION|INCONCLUSIVE|held on|violation key|KNOWN" | head -12
