#!/bin/sh
# usage: tools/validate_seed3.sh Axx k   - round-3 layout: /tmp/seeds3/Axx/k (NOTES.md line 1 "BREAKS: Cxx"), worktree /tmp/wt4/Axx
AREA="$1"; K="$2"; WT="${WTROOT:-/tmp/wt4}/$AREA"; M="${SEEDROOT:-/tmp/seeds3}/$AREA/$K"
PID=$(head -1 "$M/NOTES.md" | grep -oE "C[0-9]{2}" | head -1)
[ -n "$PID" ] || { echo "$AREA/$K: no BREAKS line"; exit 3; }
N=5; while [ -e "/verif/seeded/$PID-$N" ]; do N=$((N+1)); done
OUT="/verif/seeded/$PID-$N"
cd "$WT" || exit 3
git checkout -q -- . ; git clean -fdq; git status --short | grep -v '^??' && { echo "worktree dirty"; exit 3; }
PYTHONPATH="$WT/src" /venv/bin/python "$M/demo.py" >/tmp/vs-clean.log 2>&1; CLEAN=$?
git apply "$M/patch.diff" || { echo "$AREA/$K patch does not apply"; exit 3; }
TESTS=$(/venv/bin/python -m pytest -q -p no:cacheprovider -x 2>&1 | tail -1)
PYTHONPATH="$WT/src" /venv/bin/python "$M/demo.py" >/tmp/vs-mut.log 2>&1; MUT=$?
git checkout -q -- . ; git clean -fdq
echo "$AREA/$K -> $PID-$N clean_demo_exit=$CLEAN tests='$TESTS' mutant_demo_exit=$MUT"
case "$TESTS" in *"273 passed"*) ;; *) echo "REJECT: tests"; exit 1;; esac
[ "$CLEAN" = 0 ] && [ "$MUT" = 1 ] || { echo "REJECT: demo exits"; exit 1; }
mkdir -p "$OUT" && cp "$M/patch.diff" "$M/demo.py" "$M/NOTES.md" "$OUT/"
tail -5 /tmp/vs-mut.log > "$OUT/demo_output_with_patch.txt"
WT_FOR_META="$WT" /venv/bin/python - "$PID" "$AREA" "$OUT" "$TESTS" <<'PY'
import json, sys
pid, area, out, tests = sys.argv[1:5]
notes = open(f"{out}/NOTES.md").read().splitlines()
json.dump({"property": pid, "breaks_property": pid, "round": int(__import__("os").environ.get("ROUND","3")), "area": area,
  "source": "independent sub-agent (third round) given the text of all 19 properties, a source AREA to change, one-line summaries of the 76 earlier changes to avoid, and a scratch worktree",
  "needs_to_manifest": " ".join(l.strip() for l in notes[1:6] if l.strip())[:400],
  "validated": {"clean_demo_exit": 0, "patched_demo_exit": 1, "tests_with_patch": tests,
  "how": "tools/validate_seed3.sh: demo on clean worktree, git apply, full pytest, demo again, git checkout"},
  "base_commit": __import__("subprocess").check_output(["git","-C",__import__("os").environ.get("WT_FOR_META","/repo"),"rev-parse","HEAD"],text=True).strip(),
  "what_was_run": "tools/validate_seed3.sh and tools/seed_matrix.py", "detected_by": []}, open(f"{out}/meta.json","w"), indent=1)
PY
echo "stored $OUT"
