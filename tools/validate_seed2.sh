#!/bin/sh
# usage: tools/validate_seed2.sh Cxx k   - round-2 layout: deliverables in /tmp/seeds2/Cxx/k, worktree /tmp/wt3/Cxx
PID="$1"; K="$2"; WT="/tmp/wt3/$PID"; M="/tmp/seeds2/$PID/$K"
OUT="/verif/seeded/$PID-$K"
cd "$WT" || exit 3
git checkout -q -- . ; git status --short | grep -v '^??' && { echo "worktree dirty"; exit 3; }
PYTHONPATH="$WT/src" /venv/bin/python "$M/demo.py" >/tmp/vs-clean.log 2>&1; CLEAN=$?
git apply "$M/patch.diff" || { echo "patch does not apply"; exit 3; }
TESTS=$(/venv/bin/python -m pytest -q -p no:cacheprovider -x 2>&1 | tail -1)
PYTHONPATH="$WT/src" /venv/bin/python "$M/demo.py" >/tmp/vs-mut.log 2>&1; MUT=$?
git checkout -q -- . ; rm -f coverage.xml; git checkout -q -- coverage.xml 2>/dev/null
echo "$PID-$K clean_demo_exit=$CLEAN tests='$TESTS' mutant_demo_exit=$MUT"
case "$TESTS" in *"273 passed"*) ;; *) echo "REJECT: tests"; exit 1;; esac
[ "$CLEAN" = 0 ] && [ "$MUT" = 1 ] || { echo "REJECT: demo exits"; exit 1; }
mkdir -p "$OUT" && cp "$M/patch.diff" "$M/demo.py" "$M/NOTES.md" "$OUT/"
tail -5 /tmp/vs-mut.log > "$OUT/demo_output_with_patch.txt"
/venv/bin/python - "$PID" "$K" "$OUT" "$TESTS" <<'PY'
import json, sys
pid, k, out, tests = sys.argv[1:5]
json.dump({"property": pid, "breaks_property": pid, "round": 2,
  "source": f"independent sub-agent (second round) given only the text of {pid}, one-line summaries of the two round-1 changes to avoid, and a scratch worktree",
  "needs_to_manifest": "see NOTES.md", "validated": {"clean_demo_exit": 0, "patched_demo_exit": 1, "tests_with_patch": tests,
  "how": "tools/validate_seed2.sh: demo on clean worktree, git apply, full pytest, demo again, git checkout"},
  "base_commit": __import__("subprocess").check_output(["git","-C","/repo","rev-parse","HEAD"],text=True).strip(),
  "what_was_run": "tools/validate_seed2.sh and tools/seed_matrix.py", "detected_by": []}, open(f"{out}/meta.json","w"), indent=1)
PY
echo "stored $OUT"
