#!/venv/bin/python
"""Systematic single-site mutation analysis of the checks (complements the hand-made seeded changes).

usage: tools/mutation_run.py [--jobs 4] [--limit N] [--files gateway.py,...] [--out mutation/] [--resume]

For every mutation site in /repo/src/aiomysensors (AST-located, replaced in the source text so the diff stays one
token wide) the pipeline is

  1. copy of /repo's working tree under /tmp (removed afterwards), mutated file written;
  2. the repository's own test-suite: a mutant the 273 tests kill is of no interest here (the brief asks for changes
     that *pass the existing tests*);
  3. the checks that watch the mutated file (FILE_CHECKS), quick tier, VERIF_REPO pointing at the copy.

Result per mutant: killed-by-tests | caught (check ids + violation keys) | survived | inconclusive.  Survivors are the
work list: each is either an equivalent mutant (say why) or a blind spot (widen the workload).  Results accumulate in
<out>/results.jsonl; <out>/SUMMARY.md is rewritten at the end.  Never touches /repo.
"""

from __future__ import annotations

import argparse
import ast
import concurrent.futures
import hashlib
import json
import os
from pathlib import Path
import re
import shutil
import subprocess
import sys

ROOT = Path(__file__).resolve().parent.parent
SRC = Path("/repo/src/aiomysensors")

FILE_CHECKS = {
    "model/message.py": ["C01", "C02", "C03", "C18"],
    "model/node.py": ["C04", "C13", "C14", "C16"],
    "model/const.py": ["C11", "C02", "C01", "C14", "C13"],
    "model/protocol/__init__.py": ["C05", "C19", "C03", "C01"],
    "model/protocol/protocol_14.py": ["C03", "C04", "C05", "C06", "C07", "C10", "C11", "C12", "C19", "C13", "C01", "C02"],
    "model/protocol/protocol_15.py": ["C05", "C19", "C01", "C02", "C03"],
    "model/protocol/protocol_20.py": ["C03", "C04", "C06", "C07", "C08", "C09", "C10", "C12", "C19", "C01", "C02"],
    "model/protocol/protocol_21.py": ["C05", "C19", "C01", "C02", "C03"],
    "model/protocol/protocol_22.py": ["C05", "C07", "C08", "C19", "C01", "C02", "C03"],
    "gateway.py": ["C03", "C04", "C05", "C06", "C07", "C09", "C10", "C12", "C16"],
    "persistence.py": ["C13", "C14", "C15", "C16"],
    "exceptions.py": ["C03", "C04", "C12", "C14", "C17"],
    "transport/__init__.py": ["C17", "C16", "C03"],
    "transport/tcp.py": ["C17", "C16"],
    "transport/serial.py": ["C17", "C16"],
    "transport/mqtt.py": ["C18", "C16", "C12"],
}

CMP = {ast.Eq: "!=", ast.NotEq: "==", ast.Lt: "<=", ast.LtE: "<", ast.Gt: ">=", ast.GtE: ">", ast.Is: "is not",
       ast.IsNot: "is", ast.In: "not in", ast.NotIn: "in"}


def segment(lines: list[str], node) -> tuple[int, int]:
    """Absolute (start, end) character offsets of a node in the joined source."""
    starts = [0]
    for line in lines:
        starts.append(starts[-1] + len(line))
    # col offsets are in utf-8 bytes; the sources are ASCII except for a few comments - convert per line
    def off(lineno: int, col: int) -> int:
        line = lines[lineno - 1]
        return starts[lineno - 1] + len(line.encode()[:col].decode())
    return off(node.lineno, node.col_offset), off(node.end_lineno, node.end_col_offset)


def mutants_of(path: Path) -> list[dict]:
    source = path.read_text()
    lines = source.splitlines(keepends=True)
    tree = ast.parse(source)
    out: list[dict] = []

    def add(node, new_text: str, operator: str, start_end=None) -> None:
        start, end = start_end or segment(lines, node)
        old = source[start:end]
        if old == new_text:
            return
        out.append({"operator": operator, "line": node.lineno, "old": old[:80], "new": new_text[:80],
                    "start": start, "end": end, "text": new_text})

    parents: dict = {}
    for parent in ast.walk(tree):
        for child in ast.iter_child_nodes(parent):
            parents[child] = parent

    def in_docstring_or_annotation(node) -> bool:
        parent = parents.get(node)
        if isinstance(parent, ast.Expr):  # bare string = docstring
            return True
        while parent is not None:
            if isinstance(parent, (ast.AnnAssign,)) and getattr(parent, "annotation", None) is node:
                return True
            if isinstance(parent, ast.arg):
                return True
            parent = parents.get(parent)
        return False

    for node in ast.walk(tree):
        if isinstance(node, ast.Compare) and len(node.ops) == 1 and type(node.ops[0]) in CMP:
            left_end = segment(lines, node.left)[1]
            right_start = segment(lines, node.comparators[0])[0]
            add(node, " " + CMP[type(node.ops[0])] + " ", "compare", (left_end, right_start))
        elif isinstance(node, ast.BoolOp) and len(node.values) == 2:
            left_end = segment(lines, node.values[0])[1]
            right_start = segment(lines, node.values[1])[0]
            between = source[left_end:right_start]
            word = "and" if isinstance(node.op, ast.And) else "or"
            if re.fullmatch(rf"\s*{word}\s*", between):
                add(node, between.replace(word, "or" if word == "and" else "and"), "boolop", (left_end, right_start))
        elif isinstance(node, ast.UnaryOp) and isinstance(node.op, ast.Not):
            add(node, source[slice(*segment(lines, node.operand))], "drop-not")
        elif isinstance(node, ast.Constant) and not in_docstring_or_annotation(node):
            if node.value is True:
                add(node, "False", "const-bool")
            elif node.value is False:
                add(node, "True", "const-bool")
            elif isinstance(node.value, int) and not isinstance(node.value, bool):
                enum_member = isinstance(parents.get(node), ast.Assign) and isinstance(parents.get(parents.get(node)), ast.ClassDef)
                if enum_member and parents[parents[node]].name in ("Presentation", "SetReq"):
                    # tables of sensor / value type NAMES for applications: no handler and no validator consults them
                    # (any integer type is accepted, C01), so none of the 19 properties can tell - pilot run: 13 of 13
                    # such mutants survived every check as expected
                    continue
                add(node, str(node.value + 1), "const-int+1")
                if node.value != 0 and not enum_member:
                    add(node, str(node.value - 1), "const-int-1")
            elif isinstance(node.value, str) and node.value and len(node.value) <= 12 and "\n" not in node.value \
                    and not isinstance(parents.get(node), (ast.JoinedStr, ast.FormattedValue)):
                start, end = segment(lines, node)
                literal = source[start:end]
                if literal[:1] in "\"'" and not literal.startswith(('"""', "'''")):
                    add(node, literal[0] + literal[0], "const-str-empty")
        elif isinstance(node, (ast.If, ast.While)) and not isinstance(node.test, ast.Constant):
            add(node.test, "True", "cond-true")
            add(node.test, "False", "cond-false")
        elif isinstance(node, ast.IfExp):
            add(node.test, "True", "cond-true")
            add(node.test, "False", "cond-false")
        elif isinstance(node, ast.Expr) and isinstance(node.value, (ast.Call, ast.Await)):
            add(node, "pass", "delete-call")
        elif isinstance(node, (ast.Assign, ast.AugAssign)) and node.col_offset > 0 and not isinstance(
                parents.get(node), ast.ClassDef):
            add(node, "pass", "delete-assign")
        elif isinstance(node, ast.Return) and node.value is not None and not (
                isinstance(node.value, ast.Constant) and node.value.value is None):
            add(node, "return None", "return-none")
        elif isinstance(node, ast.Raise) and node.exc is not None:
            add(node, "pass", "delete-raise")
        elif isinstance(node, ast.Break):
            add(node, "continue", "break-continue")
        elif isinstance(node, ast.Continue):
            add(node, "break", "continue-break")
        elif isinstance(node, ast.ExceptHandler) and node.type is not None and isinstance(node.type, (ast.Name, ast.Attribute)):
            add(node.type, "ZeroDivisionError", "except-never")
        elif isinstance(node, ast.BinOp) and isinstance(node.op, (ast.Add, ast.Sub)) and not isinstance(
                node.left, ast.Constant) or isinstance(node, ast.BinOp) and isinstance(node.op, (ast.Add, ast.Sub)) and isinstance(
                getattr(node.left, "value", None), (int, float)):
            left_end = segment(lines, node.left)[1]
            right_start = segment(lines, node.right)[0]
            between = source[left_end:right_start]
            sym = "+" if isinstance(node.op, ast.Add) else "-"
            if between.strip() == sym:
                add(node, between.replace(sym, "-" if sym == "+" else "+"), "arith", (left_end, right_start))
    rel = str(path.relative_to(SRC))
    unique = {}
    for m in out:
        mutated = source[:m["start"]] + m["text"] + source[m["end"]:]
        try:
            ast.parse(mutated)
        except SyntaxError:
            continue
        m["file"] = rel
        m["id"] = hashlib.sha1(f"{rel}:{m['start']}:{m['end']}:{m['text']}".encode()).hexdigest()[:10]
        m["mutated_source"] = mutated
        unique[m["id"]] = m
    return list(unique.values())


def run_one(mutant: dict, out_dir: str) -> dict:
    work = f"/tmp/vf-mut-{os.getpid()}-{mutant['id']}"
    shutil.rmtree(work, ignore_errors=True)
    shutil.copytree("/repo", work, ignore=shutil.ignore_patterns(".git", "__pycache__", ".coverage", "coverage.xml", ".pytest_cache"))
    result = {k: mutant[k] for k in ("id", "file", "line", "operator", "old", "new")}
    try:
        Path(work, "src/aiomysensors", mutant["file"]).write_text(mutant["mutated_source"])
        tests = subprocess.run(["/venv/bin/python", "-m", "pytest", "-q", "-x", "-p", "no:cacheprovider", "--no-cov",
                                "--timeout=120"], cwd=work, capture_output=True, text=True, timeout=900)
        tail = (tests.stdout.strip().splitlines() or [""])[-1]
        if tests.returncode != 0:
            result["status"] = "killed-by-tests"
            result["tests"] = tail[:100]
            return result
        result["tests"] = tail[:60]
        caught: dict[str, list[str]] = {}
        inconclusive: list[str] = []
        for check in FILE_CHECKS.get(mutant["file"], []):
            try:
                proc = subprocess.run(["./check", check, "--tier", "quick"], cwd=ROOT, capture_output=True, text=True,
                                      timeout=1800, env=dict(os.environ, VERIF_REPO=work, VERIF_OUT_DIR=f"{work}/.vf-out"))
            except subprocess.TimeoutExpired:
                inconclusive.append(check + ":timeout")
                continue
            text = proc.stdout + proc.stderr
            keys = sorted(set(re.findall(r"violation key=(\S+)", text)))
            if proc.returncode == 1 and keys:
                caught[check] = keys
                if not os.environ.get("MUTATION_ALL_CHECKS"):
                    break
            elif proc.returncode != 0:
                inconclusive.append(f"{check}:rc={proc.returncode}")
        result["caught"] = caught
        result["inconclusive"] = inconclusive
        result["status"] = "caught" if caught else ("inconclusive" if inconclusive else "survived")
        return result
    except subprocess.TimeoutExpired:
        result["status"] = "killed-by-tests"
        result["tests"] = "timeout (hang)"
        return result
    finally:
        shutil.rmtree(work, ignore_errors=True)


def main() -> int:
    parser = argparse.ArgumentParser()
    parser.add_argument("--jobs", type=int, default=4)
    parser.add_argument("--limit", type=int, default=0)
    parser.add_argument("--files")
    parser.add_argument("--out", default=str(ROOT / "mutation"))
    parser.add_argument("--list", action="store_true")
    parser.add_argument("--only-ids")
    parser.add_argument("--summary-only", action="store_true")
    parser.add_argument("--survivors-all-checks", action="store_true",
                        help="re-run every surviving mutant against ALL 19 checks (validates the file -> checks map)")
    args = parser.parse_args()
    out_dir = Path(args.out)
    out_dir.mkdir(exist_ok=True)
    mutants: list[dict] = []
    for rel in FILE_CHECKS:
        if args.files and rel not in args.files.split(","):
            continue
        mutants.extend(mutants_of(SRC / rel))
    if args.only_ids:
        mutants = [m for m in mutants if m["id"] in args.only_ids.split(",")]
    results_path = out_dir / "results.jsonl"
    done = {}
    if results_path.exists():
        for line in results_path.read_text().splitlines():
            rec = json.loads(line)
            done[rec["id"]] = rec
    if args.summary_only:
        summarize(out_dir, done)
        return 0
    if args.survivors_all_checks:
        survivors = {i for i, r in done.items() if r["status"] in ("survived", "inconclusive")}
        mutants = [m for m in mutants if m["id"] in survivors]
        for rel in FILE_CHECKS:
            FILE_CHECKS[rel] = [f"C{i:02d}" for i in range(1, 20)]
        done = {i: r for i, r in done.items() if i not in survivors} | {i: r for i, r in done.items() if i in survivors}
        args.only_ids = ",".join(sorted(survivors))
    todo = [m for m in mutants if m["id"] not in done or args.only_ids]
    # spread operators / files evenly when limited
    todo.sort(key=lambda m: m["id"])
    if args.limit:
        todo = todo[:args.limit]
    print(f"{len(mutants)} mutation sites, {len(done)} already judged, running {len(todo)}", flush=True)
    if args.list:
        for m in todo:
            print(m["id"], m["file"], m["line"], m["operator"], repr(m["old"]), "->", repr(m["new"]))
        return 0
    with concurrent.futures.ThreadPoolExecutor(max_workers=args.jobs) as pool, results_path.open("a") as sink:
        for result in pool.map(lambda m: run_one(m, str(out_dir)), todo):
            done[result["id"]] = result
            sink.write(json.dumps(result) + "\n")
            sink.flush()
            print(result["status"], result["file"], result["line"], result["operator"], repr(result["old"]), "->",
                  repr(result["new"]), result.get("caught") or "", flush=True)
    # results.jsonl keeps one (the latest) record per mutant
    results_path.write_text("".join(json.dumps(rec) + "\n" for rec in done.values()))
    summarize(out_dir, done)
    return 0


# Why a surviving mutant cannot be told apart by ANY of the 19 properties (reviewed by hand, one rule per mechanism).
# (file regex, predicate on the record, reason).  Survivors no rule explains are listed as UNEXPLAINED = work to do.
SURVIVOR_RULES = [
    (r".*", lambda r: "TYPE_CHECKING" in r["old"], "typing-only import guard"),
    (r"exceptions\.py", lambda r: r["operator"] in ("delete-call", "const-str-empty", "boolop") or "message" in r["old"]
     or "protocol_version" in r["old"] or "partial_bytes" in r["old"],
     "exception message text / auxiliary attributes: the properties speak about exception classes and the id an error "
     "names (node_id / child_id attributes, still set)"),
    (r".*", lambda r: "LOGGER." in r["old"], "log record only"),
    (r"gateway\.py", lambda r: r["line"] == 104, "context entry WITHOUT a persistence file breaks; C16 is stated 'with a "
                                                "persistence file configured' and no other property enters the context"),
    (r"gateway\.py", lambda r: r["line"] == 107, "`async with gateway as g` binds None; no property speaks about the value "
                                                "the context manager returns (the checks use `async with gateway:`)"),
    (r"gateway\.py", lambda r: r["line"] == 127, "default of Config.metric; C06 says 'per configuration', every workload "
                                                "sets the unit system explicitly"),
    (r"model/(const|message)\.py", lambda r: r["operator"] == "const-bool", "marshmallow `required=` flags: the pre_load hook "
                                                                           "always supplies all six keys or rejects the line"),
    (r"model/message\.py", lambda r: "data is None" in r["old"] or "Data must be provided" in r["old"],
     "guard for a marshmallow calling convention that never occurs (data is always passed)"),
    (r"model/message\.py", lambda r: "must be an integer" in r["old"], "the same rejection is raised a few lines later "
                                                                      "(None is not a valid command / type)"),
    (r"model/node\.py", lambda r: r["operator"] == "return-none" and "return data" not in r["old"], "__repr__ only"),
    (r"model/node\.py", lambda r: "return data" in r["old"], "non-dict input is rejected by marshmallow either way"),
    (r"model/node\.py", lambda r: r["line"] == 147, "loader accepts battery 101: C13/C14 only require that saved files load "
                                                   "and that failures are read errors; the wire handler still refuses 101"),
    (r"model/protocol/protocol_(14|20)\.py", lambda r: r["operator"] == "const-bool",
     "message_buffer flag of an INTERNAL reply (version query, reboot, id response, config, time, presentation request, "
     "discover): internal messages are written through whatever the flag says (fix 6df9f4f), so nothing can be parked"),
    (r"model/protocol/protocol_14\.py", lambda r: r["line"] in (142, 143), "Node.set_child_value raises the same "
                                                                         "MissingChildError one call later"),
    (r"exceptions\.py", lambda r: r["line"] in (98, 99), "text of the transport read error (partial bytes appended or not)"),
    (r"model/protocol/protocol_(15|21|22)\.py", lambda r: r["operator"].startswith("const-int"),
     "one name of an ALIAS pair of internal types without a handler (I_SIGNING_PRESENTATION / I_REQUEST_SIGNING ...: the set "
     "of type numbers and every handler lookup stay the same) or a member of the Presentation / SetReq name tables"),
    (r"model/protocol/protocol_\d\d\.py", lambda r: r["operator"].startswith("const-int") and r["line"] > 250,
     "member of the Presentation / SetReq name tables or of the VALID_* lookup tables for applications: no handler or "
     "validator consults them (any integer type is accepted, C01)"),
    (r"persistence\.py", lambda r: r["line"] == 18 and r["new"] == "899", "saves more often than required"),
    (r"persistence\.py", lambda r: r["line"] in (29, 33, 34, 35), "dataclass field options (init / repr / compare)"),
    (r"persistence\.py", lambda r: r["line"] in (105, 113, 114), "inside fix 6ac75f3: current_task is never None inside a task (so the "
     "fallback 0 is dead); the re-raise only matters for a stop() whose CALLER is cancelled while it waits for a saver that "
     "never ran (a second cancellation inside that one await): C16's cancelled-exit and task-sweep workloads then still "
     "see the final state they demand"),
    (r"persistence\.py", lambda r: r["line"] in (90, 91, 93, 94) or "save.cancelled()" in r["old"],
     "inside fix d69dcef: when the cancellation is not caught there the SHIELDED save still runs to its end holding the save "
     "lock (74bd270), so the final save cannot overtake it; retrieving the save's exception only silences a warning"),
    (r"persistence\.py", lambda r: r["line"] in (123, 125), "stop() without start() / second stop(): outside C16"),
    (r"transport/__init__\.py", lambda r: "drain" in r["old"], "without drain the bytes still reach the peer in call order "
                                                              "(asyncio flushes on close); only flow control is lost, "
                                                              "which C17 does not state"),
    (r"transport/mqtt\.py", lambda r: r["line"] in (25, 26), "internal tag strings of the inbox records"),
    (r"transport/mqtt\.py", lambda r: r["line"] in (72, 74), "QoS of the SUBSCRIPTIONS (derived from a '+' level: always "
                                                            "the fallback); C18 fixes only the publish QoS"),
    (r"transport/mqtt\.py", lambda r: r["line"] in (93, 96, 97, 101, 102), "defensive branches for inbox records that cannot "
                                                                        "be produced"),
    (r"transport/(mqtt|serial|tcp)\.py", lambda r: r["old"] in ("1883", "115200", "5003", "10"),
     "default port / baud rate / client timeout"),
    (r"transport/mqtt\.py", lambda r: r["line"] in (207, 208, 226, 227, 247, 248, 264, 265, 274, 275),
     "RuntimeError guards against misuse of MQTTClient (publish before connect, connect twice): C18 does not state them"),
    (r"transport/mqtt\.py", lambda r: r["line"] in (234, 235), "retrieving the receive task's result at disconnect: only "
                                                              "silences 'exception never retrieved'"),
    (r"transport/mqtt\.py", lambda r: r["line"] == 251, "empty payload published as '' instead of None: same MQTT packet"),
]


def explain(rec: dict) -> str | None:
    for pattern, predicate, reason in SURVIVOR_RULES:
        try:
            if re.fullmatch(pattern, rec["file"]) and predicate(rec):
                return reason
        except Exception:  # noqa: BLE001
            continue
    return None


def summarize(out_dir: Path, done: dict) -> None:
    by_status: dict[str, int] = {}
    for rec in done.values():
        by_status[rec["status"]] = by_status.get(rec["status"], 0) + 1
    lines = ["# Mutation analysis of the checks (tools/mutation_run.py)", "",
             f"{len(done)} single-site mutants judged: " + ", ".join(f"{v} {k}" for k, v in sorted(by_status.items())), ""]
    passing = [r for r in done.values() if r["status"] != "killed-by-tests"]
    caught = [r for r in passing if r["status"] == "caught"]
    lines.append(f"Of the {len(passing)} that pass the repository's 273 tests, the checks catch {len(caught)}.")
    survivors = [r for r in passing if r["status"] != "caught"]
    groups: dict[str, list[dict]] = {}
    for rec in survivors:
        groups.setdefault(explain(rec) or "UNEXPLAINED", []).append(rec)
    lines.append(f"{len(survivors)} survive; {len(survivors) - len(groups.get('UNEXPLAINED', []))} of them are explained by a "
                 f"reviewed rule (no property can tell them apart), {len(groups.get('UNEXPLAINED', []))} are unexplained.")
    by_check: dict[str, int] = {}
    for rec in caught:
        for check in rec["caught"]:
            by_check[check] = by_check.get(check, 0) + 1
    lines += ["", "First check that fired, per mutant: " + ", ".join(f"{k} {v}" for k, v in sorted(by_check.items())), ""]
    lines += ["## Survivors (pass the tests, no check fired), by reason", ""]
    for reason, recs in sorted(groups.items(), key=lambda kv: (kv[0] != "UNEXPLAINED", kv[0])):
        lines.append(f"### {reason} ({len(recs)})")
        for rec in sorted(recs, key=lambda r: (r["file"], r["line"])):
            old = " ".join(rec["old"].split())[:70]
            lines.append(f"* `{rec['id']}` {rec['file']}:{rec['line']} {rec['operator']}: `{old}` -> `{rec['new'][:40]}` "
                         f"({rec['status']}{' ' + ','.join(rec.get('inconclusive') or []) if rec.get('inconclusive') else ''})")
        lines.append("")
    (out_dir / "SUMMARY.md").write_text("\n".join(lines) + "\n")


if __name__ == "__main__":
    sys.exit(main())
