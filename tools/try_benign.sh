#!/bin/sh
# usage: tools/try_benign.sh <diff> [checks...]  - behaviour-preserving change: tests must pass and every check must stay silent
exec python3 "$(dirname "$0")/try_benign.py" "$@"
