#!/bin/sh
# usage: tools/try_benign.sh <diff> [checks...]  - behaviour-preserving change: tests must pass and every check must stay silent
PATCH="$(realpath "$1")"; shift
CHECKS="${*:-C01 C02 C03 C04 C05 C06 C07 C08 C09 C10 C11 C12 C13 C14 C15 C16 C17 C18 C19}"
WT="/tmp/vf-bn-$$"
git -C /repo worktree add -q --detach "$WT" HEAD || exit 3
trap 'git -C /repo worktree remove --force "$WT" >/dev/null 2>&1' EXIT
BASE=0ed460a   # commit the seeded / benign patches were written against
git -C "$WT" apply "$PATCH" 2>/dev/null || git -C "$WT" apply --3way "$PATCH" >/dev/null 2>&1 || {
  git -C "$WT" reset -q --hard && git -C "$WT" checkout -q --detach "$BASE" && git -C "$WT" apply "$PATCH" && echo "NOTE: patch applied on its base commit $BASE (conflicts with later fix commits on HEAD)"; } || { echo "PATCH DOES NOT APPLY"; exit 3; }
T=$(cd "$WT" && /venv/bin/python -m pytest -q -p no:cacheprovider -x 2>&1 | tail -1); echo "tests: $T"
cd "$(dirname "$0")/.."
for c in $CHECKS; do
  OUT=$(VERIF_REPO="$WT" ./check "$c" --tier quick 2>&1); RC=$?
  if [ "$RC" != 0 ]; then echo "ALARM $c rc=$RC"; echo "$OUT" | grep -E "violation key|INCONCLUSIVE|note:" | cut -c1-400 | head -8; else echo "$c silent $(echo "$OUT" | grep -E 'note:' | cut -c1-160 | head -2 | tr '\n' ' ')"; fi
done
