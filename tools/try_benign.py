#!/usr/bin/env python3
"""usage: tools/try_benign.py <diff> [checks...]

A behaviour-preserving change: the repository's tests must pass and every check must stay silent.  The diff is applied
in a scratch worktree of /repo HEAD (plain, then 3-way); when it conflicts with a later `fix:` commit it is applied on
the newest older commit it fits (a079985, 0ed460a) instead - the defects fixed since then are then visible again, so
the same check is also run on that base commit alone and only violation keys the base does NOT show count as alarms.
"""

from __future__ import annotations

import os
from pathlib import Path
import re
import subprocess
import sys

ROOT = Path(__file__).resolve().parent.parent
ALL = [f"C{i:02d}" for i in range(1, 20)]
BASES = ["a079985", "0ed460a"]
KEY_FAMILIES = [{"no-final-save", "final-file-unreadable"}]


def git(*args: str, **kw) -> subprocess.CompletedProcess:
    return subprocess.run(["git", *args], capture_output=True, text=True, **kw)


def run_check(worktree: str, pid: str) -> tuple[int, list[str], str]:
    proc = subprocess.run(["./check", pid, "--tier", "quick"], cwd=ROOT, env=dict(os.environ, VERIF_REPO=worktree, VERIF_OUT_DIR=f"/tmp/vf-out-{os.getpid()}"),
                          capture_output=True, text=True, timeout=3600)
    out = proc.stdout + proc.stderr
    keys = re.findall(r"violation key=(\S+)", out)
    if "INCONCLUSIVE" in out:
        keys.append("INCONCLUSIVE")
    return proc.returncode, keys, out


def main() -> int:
    patch = str(Path(sys.argv[1]).resolve())
    checks = sys.argv[2:] or ALL
    worktree = f"/tmp/vf-bn-{os.getpid()}"
    base_tree = f"/tmp/vf-bnbase-{os.getpid()}"
    git("-C", "/repo", "worktree", "add", "-q", "--detach", worktree, "HEAD")
    on_base = None
    alarms = 0
    try:
        if git("-C", worktree, "apply", patch).returncode != 0 and git("-C", worktree, "apply", "--3way", patch).returncode != 0:
            for base in BASES:
                git("-C", worktree, "reset", "-q", "--hard")
                git("-C", worktree, "checkout", "-q", "--detach", base)
                if git("-C", worktree, "apply", patch).returncode == 0:
                    on_base = base
                    print(f"NOTE: patch applied on older commit {base} (conflicts with later fix commits on HEAD)")
                    break
            else:
                print("PATCH DOES NOT APPLY")
                return 3
        def run_tests() -> list[str]:
            return subprocess.run(["/venv/bin/python", "-m", "pytest", "-q", "-p", "no:cacheprovider", "-x"], cwd=worktree,
                                  capture_output=True, text=True).stdout.strip().splitlines()[-1:]

        tests = run_tests()
        if on_base is None and "failed" in " ".join(tests):
            # the diff applied textually on HEAD but does not fit a later fix commit (e.g. it drops an import the fix
            # needs): that merge is not the change its author validated - fall back to the commit it was written for
            for base in BASES:
                git("-C", worktree, "reset", "-q", "--hard")
                git("-C", worktree, "clean", "-fdq")
                git("-C", worktree, "checkout", "-q", "--detach", base)
                if git("-C", worktree, "apply", patch).returncode == 0:
                    on_base = base
                    print(f"NOTE: on HEAD the patched tree fails the tests ({' '.join(tests)}); applied on older commit {base}")
                    tests = run_tests()
                    break
        print("tests:", *tests)
        for name in (".coverage", "coverage.xml"):
            Path(worktree, name).unlink(missing_ok=True)
        for check in checks:
            rc, keys, out = run_check(worktree, check)
            notes = " ".join(line[:160] for line in out.splitlines() if "note:" in line)[:320]
            if rc != 0 and on_base:
                if not os.path.isdir(base_tree):
                    git("-C", "/repo", "worktree", "add", "-q", "--detach", base_tree, on_base)
                _brc, bkeys, _bout = run_check(base_tree, check)
                # one defect of the base commit can show under several keys (F19: the file is stale OR unreadable, depending
                # on which worker-thread operation straggles): a key of the same family as one the base shows is the base's
                family = set(bkeys)
                for group in KEY_FAMILIES:
                    if group & family:
                        family |= group
                extra = [k for k in keys if k not in family]
                if not extra:
                    print(f"{check} silent (only what commit {on_base} itself shows: {','.join(sorted(set(keys)))})")
                    continue
                keys = extra
            if rc != 0:
                alarms += 1
                print(f"ALARM {check} rc={rc}")
                for line in [l for l in out.splitlines() if re.search("violation key|INCONCLUSIVE|note:", l)][:8]:
                    print(line[:400])
            else:
                print(f"{check} silent {notes}")
    finally:
        git("-C", "/repo", "worktree", "remove", "--force", worktree)
        if os.path.isdir(base_tree):
            git("-C", "/repo", "worktree", "remove", "--force", base_tree)
    return 1 if alarms else 0


if __name__ == "__main__":
    sys.exit(main())
