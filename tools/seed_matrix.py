#!/usr/bin/env python3
"""Run checks against every seeded mutant (scratch worktree of /repo HEAD + patch, removed afterwards).

usage: tools/seed_matrix.py [--all-checks] [--tier quick] [--only C09-1,...] [--update-meta]
Prints one line per (seed, check) with the violation keys found; with --update-meta writes
`detected_by` into seeded/<id>/meta.json.  Never touches /repo's working tree.
"""

from __future__ import annotations

import argparse
import json
import os
from pathlib import Path
import re
import subprocess
import sys

ROOT = Path(__file__).resolve().parent.parent
ALL = [f"C{i:02d}" for i in range(1, 20)]


def run_check(worktree: str, pid: str, tier: str) -> tuple[int, list[str]]:
    env = dict(os.environ, VERIF_REPO=worktree, VERIF_OUT_DIR=f"/tmp/vf-out-{os.getpid()}")
    proc = subprocess.run(["./check", pid, "--tier", tier], cwd=ROOT, env=env, capture_output=True, text=True, timeout=3600)
    keys = re.findall(r"violation key=(\S+)", proc.stdout)
    if "INCONCLUSIVE" in proc.stdout:
        keys.append("INCONCLUSIVE")
    return proc.returncode, keys


BASE_KEYS: dict[tuple[str, str, str], set[str]] = {}


def base_keys(base: str, check: str, tier: str) -> set[str]:
    """Violation keys the check reports on the seed's (older) base commit WITHOUT the seed: defects fixed since then.
    They are subtracted, so a seed applied on its base commit is only credited with what the seed itself causes."""
    if (base, check, tier) not in BASE_KEYS:
        worktree = f"/tmp/vf-seedbase-{os.getpid()}"
        subprocess.run(["git", "-C", "/repo", "worktree", "add", "-q", "--detach", worktree, base], check=True)
        try:
            _rc, keys = run_check(worktree, check, tier)
        finally:
            subprocess.run(["git", "-C", "/repo", "worktree", "remove", "--force", worktree])
        BASE_KEYS[(base, check, tier)] = set(keys)
        print(f"  (base commit {base[:7]} alone: {check} reports {sorted(keys) or 'nothing'})")
    return BASE_KEYS[(base, check, tier)]


def main() -> int:
    parser = argparse.ArgumentParser()
    parser.add_argument("--all-checks", action="store_true")
    parser.add_argument("--tier", default="quick")
    parser.add_argument("--only")
    parser.add_argument("--update-meta", action="store_true")
    args = parser.parse_args()
    seeds = sorted(p.name for p in (ROOT / "seeded").iterdir() if (p / "patch.diff").exists())
    if args.only:
        seeds = [s for s in seeds if s in args.only.split(",")]
    missed = []
    for seed in seeds:
        pid = seed.split("-")[0]
        neutralised = json.loads((ROOT / "seeded" / seed / "meta.json").read_text()).get("neutralised_by")
        if neutralised:
            print(f"{seed}: skipped - no longer breaks the property on HEAD since fix {neutralised['commit']} (see meta.json)")
            continue
        worktree = f"/tmp/vf-seed-{os.getpid()}-{seed}"
        subprocess.run(["git", "-C", "/repo", "worktree", "add", "-q", "--detach", worktree, "HEAD"], check=True)
        try:
            patch = str(ROOT / "seeded" / seed / "patch.diff")
            applied = subprocess.run(["git", "-C", worktree, "apply", patch], capture_output=True)
            on_base = None
            if applied.returncode != 0:
                applied = subprocess.run(["git", "-C", worktree, "apply", "--3way", patch], capture_output=True)
            if applied.returncode != 0:
                base = on_base = json.loads((ROOT / "seeded" / seed / "meta.json").read_text()).get("base_commit", "0ed460a")
                subprocess.run(["git", "-C", worktree, "reset", "-q", "--hard"])
                subprocess.run(["git", "-C", worktree, "checkout", "-q", "--detach", base])
                applied = subprocess.run(["git", "-C", worktree, "apply", patch], capture_output=True)
                print(f"{seed}: note: applied on its base commit {base[:7]}")
            if applied.returncode != 0:
                print(f"{seed}: PATCH DOES NOT APPLY on /repo HEAD")
                missed.append(seed)
                continue
            detected = {}
            for check in (ALL if args.all_checks else [pid]):
                rc, keys = run_check(worktree, check, args.tier)
                if on_base:
                    keys = [k for k in keys if k not in base_keys(on_base, check, args.tier)]
                    if rc == 1 and not keys:
                        rc = 0
                if rc == 1:
                    detected[check] = keys
                elif rc != 0:
                    detected[check] = ["rc=%d" % rc, *keys]
            print(f"{seed}: " + ("; ".join(f"{c}: {','.join(k)}" for c, k in detected.items()) or "NOT DETECTED"), flush=True)
            if pid not in detected or not [k for k in detected[pid] if not k.startswith(("rc=", "INCONCLUSIVE"))]:
                if json.loads((ROOT / "seeded" / seed / "meta.json").read_text()).get("known_miss"):
                    print(f"{seed}: KNOWN MISS (documented in meta.json / DESIGN.md)")
                else:
                    missed.append(seed)
            if args.update_meta:
                meta_path = ROOT / "seeded" / seed / "meta.json"
                meta = json.loads(meta_path.read_text())
                merged = dict(meta.get("detected_by_keys") or {})
                merged.update(detected)
                meta["detected_by"] = sorted(merged)
                meta["detected_by_keys"] = merged
                meta["detection_tier"] = args.tier
                meta_path.write_text(json.dumps(meta, indent=1) + "\n")
        finally:
            subprocess.run(["git", "-C", "/repo", "worktree", "remove", "--force", worktree])
    print("missed by own-property check:", missed or "none")
    return 1 if missed else 0


if __name__ == "__main__":
    sys.exit(main())
