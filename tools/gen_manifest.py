#!/usr/bin/env python3
"""Regenerate MANIFEST.json from the table below (python3 tools/gen_manifest.py)."""
import json
from pathlib import Path

ROOT = Path(__file__).resolve().parent.parent
BASELINE_CMD = ("cd /repo && /venv/bin/python -m pytest -ra -q -p no:cacheprovider --timeout=900 "
                "--continue-on-collection-errors")

# id: (level, technique, engine, level text, level note, design ref)
CHECKS = {
    "C01": ("exploration", "generated round-trip monitor with independent formatter", "gens",
            "Runs the real MessageSchema (all five protocols) and the real Gateway.listen/send over an exhaustive "
            "boundary product x payload pool plus seeded random messages/lines and compares against an independent "
            "formatter; held-on-observed, not a proof.",
            "Trusts marshmallow and the harness formatter; payload alphabet is a finite sample of Unicode.", "4/C01"),
    "C02": ("exploration", "independent recognizer (must-accept / must-reject / either) as runtime oracle", "gens",
            "Every line of a bounded field-alphabet enumeration plus random mutations is decoded by the real schema and "
            "gateway and judged by a recognizer written from the statement; exception classes are monitored at both "
            "boundaries.",
            "Lenient integer spellings are an open point (accept-with-int()-value or reject); recognizer is trusted.", "4/C02"),
    "C03": ("exploration", "exception-class monitor at listen()/read() boundary, probe-after-error, Director schedules, interrupted / slow steps (virtual time)", "lockstep",
            "Observes the class of everything raised by Gateway.listen().__anext__() and StreamTransport.read() over state x "
            "message x payload products, malformed lines, raw byte streams through a real StreamReader, MQTT receive hooks and "
            "under concurrent send() interleavings; a probe line after each error must be processed as the model says.",
            "Recovery after transport-level errors (EOF, over-long line) is not demanded.", "4/C03"),
    "C04": ("exploration", "lockstep reference model, bounded-exhaustive + random histories, reply-write faults, code-derived dictionary payloads x type tables", "lockstep",
            "Real Gateway and an executable model written from the statements are stepped together; outcome class, ids named "
            "by errors, yielded fields and the whole registry are compared after every step; one persistent listen() iterator "
            "checks exactly-once in-order yields.",
            "Model open points (DESIGN 2.3) follow the implementation; exhaustive only up to the stated length/alphabet.", "4/C04"),
    "C05": ("exploration", "agreement invariant after every step + release-grid, type-gate and code-derived dictionary sweeps", "lockstep",
            "Asserts protocol == newest supported <= major.minor(protocol_version) after every step of every history and "
            "probes the active rules behaviourally with boundary type numbers; independent integer-tuple version map.",
            "Non-release version strings are an open point (reject, or accept consistently).", "4/C05"),
    "C06": ("exploration", "reaction projection of the lockstep trace, time replies bracketed under 6 time zones", "lockstep",
            "The multiset of lines written per received line (minus C10/C07 projections) must equal the model's reaction "
            "table for all single-step state x message pairs and random histories, repeated under tzset() zones.",
            "Write order inside a step is not compared; time reply checked by bracketing, not equality.", "4/C06"),
    "C07": ("exploration", "sleep-buffer projection of the lockstep trace with unique payloads", "lockstep",
            "All sequential interleavings of sends / wakes / non-wakes up to a bound on 2.0/2.1/2.2 (and 1.x with restored "
            "sleeping flag) against the model buffer; unique payloads make every write identify its send.",
            "'most recently sent' read as most recently parked.", "4/C07"),
    "C08": ("fault_enumeration", "every subset of failing write attempts, conservation checker over the write log", "transports",
            "Enumerates every subset of failing Transport.write attempts (first 5/8) for every buffered-set shape and wake "
            "sequence; checks fault reported as transport error, parked = written_ok + still_parked, nothing twice, nothing lost "
            "after fault-free wakes.",
            "Faults are raised after the write call is logged; release order is free.", "4/C08"),
    "C09": ("exploration", "Director: all schedules of gate releases and sender starts, per-key unique-value history checker", "sched",
            "Every suspension point is a Transport.write gate; stateless DFS enumerates every choice sequence for bounded "
            "configurations (plus random schedules for larger ones) on the real Gateway; last-written = last-sent, no phantom, "
            "no duplicate, no deadlock.",
            "Exhaustive only for the bounded configurations listed in the evidence; write order = call order.", "4/C09"),
    "C10": ("fault_enumeration", "type-19 projection of the lockstep trace x subsets of failing request writes", "lockstep",
            "All histories up to a bound over 16 message kinds from known/unknown nodes x every subset of failing "
            "presentation-request writes (first three) x five versions against the model's outstanding-request set.",
            "Which library error surfaces on a failed request write is open.", "4/C10"),
    "C11": ("exploration", "freshness invariant asserted inside the Transport.write boundary, allocator-agnostic", "lockstep",
            "For registry shapes x request sequences: id in 1..254, not registered before, never handed out twice, registered "
            "at the moment the response is written (checked inside write), addressed like the request; TooManyNodes clauses.",
            "Does not predict which id is chosen.", "4/C11"),
    "C12": ("exploration", "three-way outcome classification of every send from the boundary log", "transports",
            "Every command x every type number x flag x destination state x version: written-now / library error / held and "
            "written at next wake (after protocol switches, other traffic, a failing flush write) / else violation; non-message "
            "objects must raise InvalidMessageError.",
            "1.x has no wake message: held commands there are only checked for 'not written when sent'.", "4/C12"),
    "C13": ("exploration", "save/load through real files, structural comparison, legacy-layout translator, overlapping / queued saves on a deterministic loop", "gens",
            "Registries reached by random message histories and direct construction are saved with the real Persistence to "
            "real files and loaded back (native and legacy layout) and compared attribute by attribute with types.",
            "Legacy equivalence defined for sleeping=False.", "4/C13"),
    "C14": ("exploration", "mutated / truncated / garbage files against the real loader, exception-class monitor", "gens",
            "Every byte prefix, every single-subtree mutation, key renames, random JSON, raw byte garbage, directory path, "
            "missing and empty file through Persistence.load and Gateway.__aenter__; only PersistenceReadError may escape.",
            "Permission-denied files cannot be produced as root; a directory path stands in.", "4/C14"),
    "C15": ("fault_enumeration", "strace op-log recorder, prefix + torn-write crash-state replay judged by the real loader", "fsrec",
            "Records the real syscall sequence of one save with strace, replays every prefix and torn write onto the pre-state "
            "and runs the real load on each crash state; replayer validated against the real final directory on every run; "
            "thorough adds live SIGKILLs. One open known finding (save-truncates-live-file).",
            "Crash model is process death, not power loss; needs ptrace (else inconclusive).", "4/C15"),
    "C16": ("exploration", "VLoop exit-moment sweep (virtual time, inline executor), cadence to the second, sessions under new event loops, live traffic on the real thread pool", "sched",
            "Leaves `async with Gateway` after every k loop iterations x fault mode x file state x transport on a deterministic "
            "loop, enumerates connect failures of several exception classes, runs virtual hours for the 15-minute cadence, and "
            "stress-runs real thread-pool contexts over scripted/TCP/serial/MQTT transports with timing-independent oracles.",
            "k sweep covers a range without assuming where the saver is at a given k; cadence bound 900 s + poll interval.", "4/C16"),
    "C17": ("exploration", "chunked byte streams vs reference splitter; loopback TCP and pty peers; fault positions; virtual-time quiet connections; code-derived dictionary and banner lines", "gens",
            "All chunkings of short streams and random streams through a real StreamReader, a loopback server and a pty; "
            "written bytes compared at the peer; refused connect, peer reset, EOF, over-long line, use-before-connect.",
            "Line at exactly the reader limit is either; after EOF/over-long only ordering is demanded.", "4/C17"),
    "C18": ("exploration", "hook-level mapping monitor, FIFO checker, fake aiomqtt client on VLoop with logical-deadlock detector, mini broker", "mqttfake",
            "Topic/payload/QoS of every publish, subscription coverage via paho's matcher, echo round trip, exactly-once FIFO of "
            "messages and errors; scripts of deliveries/errors/reads/disconnect on a fake client where a read that can never "
            "complete is a logical deadlock (deaf); thorough: real aiomqtt+paho against an in-process MQTT 3.1.1 broker.",
            "After a broker error nothing further is demanded; fake client installed via the module attribute seam.", "4/C18"),
    "C19": ("exploration", "differential lockstep of two real gateways (older version is the reference), incl. code-derived dictionary payloads", "lockstep",
            "All 10 ordered version pairs: every type number of the older protocol in 4 states, all 2-step histories over a "
            "34-symbol alphabet, random histories with sends; outcome, writes and registry compared per step with the stated "
            "exclusions and the heartbeat translation.",
            "Version reports are not generated; error text not compared.", "4/C19"),
}

PENDING_REASON = "check not built yet in this revision of /verif (work in progress; the property is within the technique's reach)"


def main() -> None:
    props = [json.loads(line) for line in (ROOT / "properties.jsonl").read_text().splitlines() if line.strip()]
    checks = []
    for prop in props:
        pid = prop["id"]
        if pid not in CHECKS:
            continue
        level, technique, engine, text, note, ref = CHECKS[pid]
        checks.append({
            "property_id": pid,
            "quick_cmd": f"./check {pid} --tier quick",
            "thorough_cmd": f"./check {pid} --tier thorough",
            "evidence_file": f"/verif/evidence/{pid}.json",
            "replay_cmd_template": f"./check {pid} --replay {{path}}",
            "engine": engine,
            "level_claimed": {"category": level, "text": text, "design_ref": f"DESIGN.md section {ref}"},
            "level_note": note,
            "technique": technique,
        })
    manifest = {
        "version": 1,
        "setup_cmd": "./setup.sh",
        "hooks": {
            "guard": "AIOMYSENSORS_VERIF",
            "enable": "no source hooks are needed: every observation point is a public boundary (custom Transport, "
                      "Gateway.nodes, listen/send, Persistence.load/save, real files, stream peer); ./check sets "
                      "AIOMYSENSORS_VERIF=1 and PYTHONPATH=$VERIF_REPO/src (default /repo) for its own processes only",
            "baseline_off_cmd": BASELINE_CMD,
            "source_commits": [],
            "add_only": True,
        },
        "engines": ENGINES,
        "checks": checks,
        "not_applicable": [{"property_id": p["id"], "reason": NOT_APPLICABLE.get(p["id"], PENDING_REASON)}
                           for p in props if p["id"] not in CHECKS],
        "notes": "All checks go through ./check <id> [--tier quick|thorough] [--replay file]; VERIF_SEED, VERIF_TIER and "
                 "VERIF_REPO are honoured. Exit 0 held-on-observed (KNOWN-FINDING lines for listed open findings), "
                 "exit 1 VIOLATION, exit 2 INCONCLUSIVE. Known findings: KNOWN_FINDINGS.txt. Seeded breaking changes "
                 "used to validate the monitors: seeded/<id>/. See DESIGN.md.",
    }
    (ROOT / "MANIFEST.json").write_text(json.dumps(manifest, indent=1) + "\n")


NOT_APPLICABLE: dict[str, str] = {}

ENGINES = [
    {"name": "gens", "path": "vf/gens.py", "serves_properties": ["C01", "C02", "C03", "C13", "C14", "C17"],
     "kind_free_text": "seeded generators and pools for lines, payloads, numbers, files; independent wire spec in vf/spec.py"},
    {"name": "lockstep", "path": "vf/lockstep.py", "serves_properties": ["C03", "C04", "C05", "C06", "C07", "C10", "C11", "C19"],
     "kind_free_text": "real Gateway on a ScriptedTransport stepped together with the reference model vf/model.py; mismatches tagged per property"},
    {"name": "transports", "path": "vf/harness.py", "serves_properties": ["C08", "C11", "C12"],
     "kind_free_text": "ScriptedTransport: boundary recorder, fault plan, gate mode"},
    {"name": "sched", "path": "vf/sched.py", "serves_properties": ["C03", "C09", "C16", "C18"],
     "kind_free_text": "Director (controlled interleavings, stateless DFS) and vf/vloop.py (virtual time, inline executor, logical deadlock)"},
    {"name": "fsrec", "path": "vf/fsrec.py", "serves_properties": ["C15"],
     "kind_free_text": "strace syscall recorder + crash-state replayer"},
    {"name": "mqttfake", "path": "vf/mqttfake.py", "serves_properties": ["C16", "C18"],
     "kind_free_text": "fake aiomqtt client; vf/minibroker.py MQTT 3.1.1 subset broker for the real client stack"},
]

if __name__ == "__main__":
    main()
