#!/usr/bin/env python3
"""Regenerate MANIFEST.json from the table below (python3 tools/gen_manifest.py)."""
import json
from pathlib import Path

ROOT = Path(__file__).resolve().parent.parent
BASELINE_CMD = ("cd /repo && /venv/bin/python -m pytest -ra -q -p no:cacheprovider --timeout=900 "
                "--continue-on-collection-errors")

# id: (level, technique, engine, level text, level note, design ref)
CHECKS = {
    "C01": ("exploration", "generated round-trip monitor with independent formatter", "gens",
            "Runs the real MessageSchema (all five protocols) and the real Gateway.listen/send over an exhaustive "
            "boundary product x payload pool plus seeded random messages/lines and compares against an independent "
            "formatter; held-on-observed, not a proof.",
            "Trusts marshmallow and the harness formatter; payload alphabet is a finite sample of Unicode.", "4/C01"),
}

PENDING_REASON = "check not built yet in this revision of /verif (work in progress; the property is within the technique's reach)"


def main() -> None:
    props = [json.loads(line) for line in (ROOT / "properties.jsonl").read_text().splitlines() if line.strip()]
    checks = []
    for prop in props:
        pid = prop["id"]
        if pid not in CHECKS:
            continue
        level, technique, engine, text, note, ref = CHECKS[pid]
        checks.append({
            "property_id": pid,
            "quick_cmd": f"./check {pid} --tier quick",
            "thorough_cmd": f"./check {pid} --tier thorough",
            "evidence_file": f"/verif/evidence/{pid}.json",
            "replay_cmd_template": f"./check {pid} --replay {{path}}",
            "engine": engine,
            "level_claimed": {"category": level, "text": text, "design_ref": f"DESIGN.md section {ref}"},
            "level_note": note,
            "technique": technique,
        })
    manifest = {
        "version": 1,
        "setup_cmd": "./setup.sh",
        "hooks": {
            "guard": "AIOMYSENSORS_VERIF",
            "enable": "no source hooks are needed: every observation point is a public boundary (custom Transport, "
                      "Gateway.nodes, listen/send, Persistence.load/save, real files, stream peer); ./check sets "
                      "AIOMYSENSORS_VERIF=1 and PYTHONPATH=$VERIF_REPO/src (default /repo) for its own processes only",
            "baseline_off_cmd": BASELINE_CMD,
            "source_commits": [],
            "add_only": True,
        },
        "engines": ENGINES,
        "checks": checks,
        "not_applicable": [{"property_id": p["id"], "reason": NOT_APPLICABLE.get(p["id"], PENDING_REASON)}
                           for p in props if p["id"] not in CHECKS],
        "notes": "All checks go through ./check <id> [--tier quick|thorough] [--replay file]; VERIF_SEED, VERIF_TIER and "
                 "VERIF_REPO are honoured. Exit 0 held-on-observed (KNOWN-FINDING lines for listed open findings), "
                 "exit 1 VIOLATION, exit 2 INCONCLUSIVE. Known findings: KNOWN_FINDINGS.txt. Seeded breaking changes "
                 "used to validate the monitors: seeded/<id>/. See DESIGN.md.",
    }
    (ROOT / "MANIFEST.json").write_text(json.dumps(manifest, indent=1) + "\n")


NOT_APPLICABLE: dict[str, str] = {}

ENGINES = [
    {"name": "gens", "path": "vf/gens.py", "serves_properties": ["C01", "C02", "C03"],
     "kind_free_text": "seeded generators and pools for lines, payloads, numbers; independent wire spec in vf/spec.py"},
]

if __name__ == "__main__":
    main()
