#!/bin/sh
# usage: tools/run_all.sh [tier]  - runs every check, prints verdict line and wall time, validates evidence
TIER="${1:-quick}"
cd "$(dirname "$0")/.."
for i in 01 02 03 04 05 06 07 08 09 10 11 12 13 14 15 16 17 18 19; do
  S=$(date +%s.%N)
  OUT=$(./check C$i --tier "$TIER" 2>&1); RC=$?
  E=$(date +%s.%N)
  printf "C%s rc=%s %.1fs %s\n" "$i" "$RC" "$(echo "$E - $S" | bc)" "$(echo "$OUT" | grep -E "VIOLATION|INCONCLUSIVE|KNOWN-FINDING|held on" | cut -c1-110 | tr '\n' '|')"
done
python3-vt - <<'PY'
import json, jsonschema, glob
schema = json.load(open('/root/.vp/EVIDENCE.schema.json'))
for f in sorted(glob.glob('evidence/*.json')):
    jsonschema.validate(json.load(open(f)), schema)
print('evidence files valid:', len(glob.glob('evidence/*.json')))
PY
