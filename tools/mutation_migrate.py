#!/venv/bin/python
"""After a fix commit shifted line numbers: carry the verdicts of mutation/results.jsonl over to the new mutant ids.

A mutant id hashes the byte offsets of its site, so every site below an edited line gets a new id although the mutation is
the same.  Per file, old records (ids that no longer exist) and new unjudged sites are grouped by (operator, old text, new
text) and matched in line order when the group sizes agree; groups that do not agree (the edited region itself) are left
for `tools/mutation_run.py` to run.  Old records that could not be carried over are dropped.
usage: tools/mutation_migrate.py file.py[,file2.py]
"""
import json
import sys
from collections import defaultdict
from pathlib import Path

sys.path.insert(0, str(Path(__file__).resolve().parent))
import mutation_run as mr  # noqa: E402

files = sys.argv[1].split(",")
path = mr.ROOT / "mutation" / "results.jsonl"
records = [json.loads(line) for line in path.read_text().splitlines()]
by_id = {r["id"]: r for r in records}
for rel in files:
    sites = mr.mutants_of(mr.SRC / rel)
    site_ids = {m["id"] for m in sites}
    old = [r for r in by_id.values() if r["file"] == rel and r["id"] not in site_ids]
    new = [m for m in sites if m["id"] not in by_id]
    groups_old, groups_new = defaultdict(list), defaultdict(list)
    for r in old:
        groups_old[(r["operator"], r["old"], r["new"])].append(r)
    for m in new:
        groups_new[(m["operator"], m["old"], m["new"])].append(m)
    carried = dropped = 0
    for key, olds in groups_old.items():
        news = groups_new.get(key, [])
        olds.sort(key=lambda r: r["line"])
        news.sort(key=lambda m: m["line"])
        for r in olds:
            del by_id[r["id"]]
        if len(olds) == len(news):
            for r, m in zip(olds, news):
                rec = dict(r, id=m["id"], line=m["line"])
                by_id[rec["id"]] = rec
                carried += 1
        else:
            dropped += len(olds)
    left = [m for m in sites if m["id"] not in by_id]
    print(f"{rel}: {len(sites)} sites, carried over {carried}, dropped {dropped}, still to run {len(left)}")
    for m in left:
        print("   ", m["id"], m["line"], m["operator"], repr(m["old"])[:60], "->", repr(m["new"])[:30])
path.write_text("".join(json.dumps(rec) + "\n" for rec in by_id.values()))
