#!/bin/sh
# Runs every behaviour-preserving change in benign/ against every check; any ALARM is a false alarm to investigate.
cd "$(dirname "$0")/.."
for f in benign/*.diff; do echo "=== $f"; tools/try_benign.sh "$f" "$@" 2>&1 | grep -vE "^C[0-9]+ silent *$"; done
