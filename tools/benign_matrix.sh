#!/bin/sh
# Runs every behaviour-preserving change in benign/ against every check; any ALARM is a false alarm to investigate.
# usage: tools/benign_matrix.sh [-j N] [checks...]   (N diffs in parallel, default 3; output grouped per diff)
cd "$(dirname "$0")/.."
J=3
if [ "$1" = "-j" ]; then J="$2"; shift 2; fi
ls benign/*.diff | xargs -P "$J" -I{} sh -c 'OUT=$(tools/try_benign.sh {} '"$*"' 2>&1 | grep -vE "^C[0-9]+ silent *$"); printf "=== %s\n%s\n" "{}" "$OUT"'
