"""Lockstep driver: feeds the same operations to a real Gateway (on a ScriptedTransport) and
to the reference model, and records per step the mismatches, tagged by the property that owns
the clause.  Each property's check reports only its own tags (projection, DESIGN 2.3).

A history case is a JSON-able dict:
  {"version": None | "2.1", "metric": true, "steps": [op, ...], "faults": [attempt, ...]}
ops:  ["rx", line]
      ["tx", [n, c, cmd, ack, t, payload], buffered]
      ["flag", node_id, "reboot" | "sleeping", bool]      application sets a public attribute
      ["restore", node_id, {type, version, sleeping, children: {cid: [ctype, desc, {vt: val}]}}]
      ["reenter"]                                          leave and re-enter `async with gateway`
      ["config", "metric", bool]                           the application changes gateway.config on the live gateway
      ["load", {key: native record, ...}]                  restore through the real Persistence.load (sparse records allowed)
"""

from __future__ import annotations

import calendar
from collections import Counter
import datetime
import os
import time
from typing import Any

from . import spec
from .harness import ScriptedTransport, Stepper, exc_info, fields_of, is_library_error, new_gateway
from .model import Expect, MChild, MNode, Model


def real_snapshot(gateway) -> dict[int, tuple]:
    snap = {}
    for nid, node in gateway.nodes.items():
        children = tuple(sorted(
            (cid, ch.child_type, ch.description, tuple(sorted(ch.values.items())))
            for cid, ch in node.children.items()))
        snap[nid] = (node.node_type, node.protocol_version, node.sketch_name, node.sketch_version,
                     node.battery_level, node.heartbeat, node.sleeping, children)
    return snap


def masked_equal(model_snap: dict[int, tuple], real_snap: dict[int, tuple], skip: set[int]) -> str | None:
    """Compare registries; placeholder attributes (None in the model) are masked."""
    if set(model_snap) - skip != set(real_snap) - skip:
        return f"node ids differ: model {sorted(model_snap)} real {sorted(real_snap)}"
    for nid, want in model_snap.items():
        if nid in skip:
            continue
        got = real_snap[nid]
        for i, (w, g) in enumerate(zip(want, got)):
            if w is None and i < 2:
                continue
            if w != g or type(w) is not type(g):
                name = ["type", "version", "sketch_name", "sketch_version", "battery", "heartbeat", "sleeping",
                        "children"][i]
                return f"node {nid} {name}: model {w!r:.120} real {g!r:.120}"
    return None


def local_epoch_bounds(t0: float, t1: float) -> tuple[int, int]:
    def local(ts: float) -> int:
        off = datetime.datetime.fromtimestamp(ts).astimezone().utcoffset()
        return int(ts) + int(off.total_seconds())

    return local(t0) - 1, local(t1) + 1


def split_line(line: str) -> tuple | None:
    parts = line.rstrip("\n").split(";", 5)
    if len(parts) != 6:
        return None
    try:
        return (*[int(x) for x in parts[:5]], parts[5])
    except ValueError:
        return None


class Mismatch:
    __slots__ = ("prop", "key", "what", "step")

    def __init__(self, prop: str, key: str, what: str, step: int) -> None:
        self.prop, self.key, self.what, self.step = prop, key, what, step

    def __repr__(self) -> str:
        return f"<{self.prop} {self.key} @{self.step}: {self.what}>"


class Lockstep:
    """One real gateway + one model."""

    def __init__(self, case: dict, *, stats: Counter | None = None) -> None:
        self.case = case
        self.stats = stats if stats is not None else Counter()
        from . import harness as _harness

        with _harness.options(case["config_extra"] if "config_extra" in case else dict(_harness.CONFIG_EXTRA)):
            if case.get("neighbour"):
                # a SECOND gateway lives in the same process (two serial gateways in one application); both are built
                # the way the README builds one - no Config given - and the neighbour is then reconfigured, filled and used.
                # Nothing in the statements lets one gateway's configuration, registry or buffer reach another's.
                from aiomysensors import Gateway as _Gateway

                self.neighbour = _Gateway(ScriptedTransport())
                self.transport = ScriptedTransport()
                self.gateway = _Gateway(self.transport)
                self.prepare_neighbour()
            elif case.get("session_file") is not None:
                # the registry comes from the persistence file named in the Config, loaded when the context is entered
                import json as _json
                import tempfile as _tempfile

                fd, self.session_path = _tempfile.mkstemp(prefix="vf-lockstep-session-", suffix=".json")
                with os.fdopen(fd, "w", encoding="utf-8") as fil:
                    _json.dump(case["session_file"], fil)
                self.gateway, self.transport = new_gateway(None, metric=case.get("metric", True),
                                                           persistence_file=self.session_path)
            else:
                self.gateway, self.transport = new_gateway(None, metric=case.get("metric", True))
        self.model = Model(metric=case.get("metric", True))
        if case.get("version") is not None:
            self.gateway.protocol_version = case["version"]
            self.model.set_version_directly(case["version"])
        for name, value in (case.get("config_extra") or {}).items():
            # options of Config this harness knows nothing about, set to a non-default value: only property-level rules
            # that hold for ANY configuration are judged by the caller (C03: nothing but library errors)
            setattr(self.gateway.config, name, value)
        self.transport.fail_attempts = set(case.get("faults") or ())
        if case.get("fault_class"):
            self.transport.fault_class = case["fault_class"]
        if case.get("fail19"):
            # fail the k-th write attempt of a presentation request (internal type 19)
            wanted = set(case["fail19"])
            seen = {"n": 0}

            def predicate(_attempt: int, line: str) -> bool:
                parsed = split_line(line)
                if not parsed or parsed[2] != 3 or parsed[4] != spec.I_PRESENTATION:
                    return False
                seen["n"] += 1
                return seen["n"] - 1 in wanted

            self.transport.fail_predicate = predicate
        if case.get("fail_reply_types"):
            # fail every n-th write of a library-initiated internal reply of the given types (reboot command 13, config 6,
            # time 1, version query 2, discover 20): the fault positions C06's reactions add to the receive path
            reply_types = set(case["fail_reply_types"])
            every = int(case.get("fail_reply_every") or 1)
            seen_replies = {"n": 0}
            earlier = self.transport.fail_predicate

            def reply_predicate(attempt: int, line: str) -> bool:
                if earlier is not None and earlier(attempt, line):
                    return True
                parsed = split_line(line)
                if not parsed or parsed[2] != 3 or parsed[4] not in reply_types:
                    return False
                seen_replies["n"] += 1
                return seen_replies["n"] % every == 0

            self.transport.fail_predicate = reply_predicate
        self.stepper = Stepper(self.gateway, self.transport)
        self.mismatches: list[Mismatch] = []
        self.step_index = -1
        self.trace: list[dict] = []
        self.id_checks: list[dict] = []
        self._nodes_at_write: dict[int, bool] = {}

        def on_write(line: str) -> None:
            parsed = split_line(line)
            if parsed and parsed[2] == 3 and parsed[4] == spec.I_ID_RESPONSE:
                new_id = spec_int(parsed[5])
                self._nodes_at_write[self.transport.attempts - 1] = new_id in self.gateway.nodes

        self.transport.on_write = on_write

    def bad(self, prop: str, key: str, what: str) -> None:
        self.mismatches.append(Mismatch(prop, key, what, self.step_index))

    # ------------------------------------------------------------------------------
    async def run(self) -> list[Mismatch]:
        if self.case.get("neighbour"):
            # the neighbour parks commands for its sleeping nodes and hears from a node nobody else knows
            from aiomysensors.model.message import Message

            for fields in ((1, 0, 1, 0, 2, "neighbour's"), (2, 5, 1, 0, 0, "98"), (9, 0, 2, 0, 2, "")):
                try:
                    await self.neighbour.send(Message(*fields))
                except Exception:  # noqa: BLE001  not the gateway under test
                    self.stats["neighbour:send-error"] += 1
            self.stats["neighbour:prepared"] += 1
        if self.case.get("session_file") is not None:
            try:
                try:
                    await self.gateway.__aenter__()
                except Exception as exc:  # noqa: BLE001
                    self.bad("C16", "enter-raised", f"entering the context with a valid file raised {type(exc).__name__}: {exc!s:.100}")
                    return self.mismatches
                self.transport.take_writes()
                self.model_restore_records(self.case["session_file"])
                self.stats["session-file:entered"] += 1
                self.check_invariants()
                return await self.run_steps()
            finally:
                try:
                    await self.stepper.close()
                    await self.gateway.__aexit__(None, None, None)
                except Exception:  # noqa: BLE001  judged by C16's own workloads
                    pass
                for path in (self.session_path, self.session_path + ".bak", self.session_path + ".tmp"):
                    try:
                        os.unlink(path)
                    except OSError:
                        pass
        return await self.run_steps()

    async def run_steps(self) -> list[Mismatch]:
        for op in self.case["steps"]:
            self.step_index += 1
            kind = op[0]
            if kind == "rx":
                await self.step_rx(op[1])
            elif kind == "tx":
                await self.step_tx(tuple(op[1]), bool(op[2]))
            elif kind == "flag":
                node = self.gateway.nodes.get(op[1])
                if node is not None:
                    setattr(node, op[2], op[3])
                self.model.flag(op[1], op[2], op[3])
            elif kind == "restore":
                self.restore(op[1], op[2])
            elif kind == "clock":
                # time passes (monotonic and wall clock together, vf.vclock): nothing in the statements ages - episodes,
                # parked commands, handed-out ids and the registry are as they were
                from . import vclock

                vclock.advance(float(op[1]))
                self.stats["steps:clock"] += 1
            elif kind == "rebind-children":
                # the application replaces a node's public `children` attribute by a plain dict with the same content
                node = self.gateway.nodes.get(op[1])
                if node is not None:
                    node.children = dict(node.children)
            elif kind == "rebind":
                # the application binds a NEW dict with the same content to the public `nodes` attribute (restoring a backup,
                # filtering the registry): the registry is whatever gateway.nodes names now
                self.gateway.nodes = dict(self.gateway.nodes)
            elif kind == "forget":
                # the application removes a node from the public registry (decommissioned device); its id is free again
                self.gateway.nodes.pop(op[1], None)
                self.model.forget(op[1])
            elif kind == "config":
                setattr(self.gateway.config, op[1], op[2])  # the application changes the public Config of a live gateway
                if op[1] == "metric":
                    self.model.metric = bool(op[2])
            elif kind == "load":
                await self.load_file(op[1])
            elif kind == "reenter":
                # the application leaves and re-enters `async with gateway` (reconnect); nothing in the statements makes
                # the controller forget registry, buffer or episodes, so the model does nothing
                await self.stepper.close()
                try:
                    if len(op) > 1 and op[1] == "transport-error":
                        # the session ends because listen() raised a transport error (connection lost), then reconnects
                        from aiomysensors.exceptions import TransportFailedError as _TFE

                        lost = _TFE("connection lost")
                        await self.gateway.__aexit__(_TFE, lost, None)
                    else:
                        await self.gateway.__aexit__(None, None, None)
                    if len(op) > 1 and op[1] in ("connect-refused", "connect-cancelled"):
                        # the first attempt to come back fails (gateway not reachable yet / the application gives up), the
                        # next one succeeds: what the controller knows (version, registry, buffer) is as before
                        from aiomysensors.exceptions import TransportError as _TE
                        import asyncio as _asyncio

                        self.transport.connect_error = _TE("refused") if op[1] == "connect-refused" else _asyncio.CancelledError()
                        try:
                            await self.gateway.__aenter__()
                        except (_TE, _asyncio.CancelledError):
                            self.stats["reenter:failed-attempt"] += 1
                        else:
                            self.bad("C16", "connect-failure-swallowed", "entering with a failing connect returned")
                        finally:
                            self.transport.connect_error = None
                    await self.gateway.__aenter__()
                except Exception as exc:  # noqa: BLE001
                    self.bad("C16", "reenter-raised", f"re-entering the context raised {type(exc).__name__}")
                self.transport.take_writes()
            self.check_invariants()
        await self.stepper.close()
        return self.mismatches

    def prepare_neighbour(self) -> None:
        from aiomysensors.model.node import Child, Node

        other = self.neighbour
        other.config.metric = False
        other.protocol_version = "2.1"
        for node_id in (1, 2, 9):
            other.nodes[node_id] = Node(node_id, 18, "1.4", children={0: Child(0, 3, description="neighbour's", values={2: "1"}),
                                                                        5: Child(5, 6, values={0: "99"})},
                                        sleeping=True, battery_level=11, heartbeat=77)

    def restore(self, node_id: int, data: dict) -> None:
        from aiomysensors.model.node import Child, Node

        children = {int(cid): Child(int(cid), ch[0], description=ch[1], values={int(k): v for k, v in ch[2].items()})
                    for cid, ch in (data.get("children") or {}).items()}
        self.gateway.nodes[node_id] = Node(node_id, data.get("type", 17), data.get("version", "2.0"),
                                           children=children, sleeping=data.get("sleeping", False),
                                           battery_level=data.get("battery", 0), heartbeat=data.get("heartbeat", 0))
        self.model.restore(node_id, MNode(
            data.get("type", 17), data.get("version", "2.0"),
            children={int(cid): MChild(ch[0], ch[1], {int(k): v for k, v in ch[2].items()})
                      for cid, ch in (data.get("children") or {}).items()},
            battery=data.get("battery", 0), heartbeat=data.get("heartbeat", 0), sleeping=data.get("sleeping", False)))

    async def load_file(self, records: dict) -> None:
        """The registry is (partly) restored through the REAL Persistence.load from a native-layout file whose records
        may omit every optional field; the model applies the documented defaults itself."""
        import json
        import os
        import tempfile

        from aiomysensors.persistence import Persistence

        fd, path = tempfile.mkstemp(prefix="vf-lockstep-", suffix=".json")
        try:
            with os.fdopen(fd, "w", encoding="utf-8") as fil:
                json.dump(records, fil)
            try:
                await Persistence(self.gateway.nodes, path).load()
            except Exception as exc:  # noqa: BLE001
                self.bad("C14", "load-raised", f"loading a valid sparse file raised {type(exc).__name__}: {exc!s:.100}")
                return
        finally:
            os.unlink(path)
        self.model_restore_records(records)

    def model_restore_records(self, records: dict) -> None:
        for record in records.values():
            children = {int(cid): MChild(ch["child_type"], ch.get("description", ""),
                                         {int(k): v for k, v in (ch.get("values") or {}).items()})
                        for cid, ch in (record.get("children") or {}).items()}
            self.model.restore(record["node_id"], MNode(
                record["node_type"], record["protocol_version"], children=children,
                sketch_name=record.get("sketch_name", ""), sketch_version=record.get("sketch_version", ""),
                battery=record.get("battery_level", 0), heartbeat=record.get("heartbeat", 0),
                sleeping=record.get("sleeping", False)))

    # ------------------------------------------------------------------------------
    def check_invariants(self) -> None:
        """C05 agreement invariant + registry equality, after every step."""
        gw = self.gateway
        want_proto = spec.pmap(gw.protocol_version)
        self.stats["inv:version-protocol"] += 1
        try:
            active = gw.protocol.VERSION
        except Exception:  # noqa: BLE001
            active = None
        if want_proto is not None and active != want_proto:
            key = "version-protocol-disagree"
            mm = spec.release_major_minor(gw.protocol_version) if gw.protocol_version else None
            if mm and gw.protocol_version.count(".") >= 2 and gw.protocol_version.split(".")[2] == "0":
                key = "patch-zero-maps-down"
            self.bad("C05", key, f"reported version {gw.protocol_version!r} but active protocol {active!r} "
                                  f"(newest supported <= major.minor is {want_proto})")
        if want_proto is None and isinstance(gw.protocol_version, str):
            mm = spec.modifier_major_minor(gw.protocol_version)
            if mm is not None:
                self.stats["inv:version-protocol-modifier"] += 1
                if active != spec.newest_not_above(mm):
                    self.bad("C05", "version-protocol-disagree",
                             f"reported version {gw.protocol_version!r} (major.minor {mm[0]}.{mm[1]}) was accepted but the "
                             f"active protocol is {active!r}, not {spec.newest_not_above(mm)}")
        if gw.protocol_version != self.model.version or (active != self.model.proto):
            key = "version-state-differs"
            if gw.protocol_version is not None and spec.pmap(gw.protocol_version) is None and \
                    self.model.version != gw.protocol_version:
                key = "rejected-version-stored"
            self.bad("C05", key, f"version/protocol: real ({gw.protocol_version!r}, {active!r}) "
                                 f"model ({self.model.version!r}, {self.model.proto!r})")
        schema_proto = getattr(getattr(gw, "_message_schema", None), "context", {}).get("protocol")
        if schema_proto is not None and getattr(schema_proto, "VERSION", active) != active:
            self.bad("C05", "schema-protocol-disagree", f"decoder uses {schema_proto.VERSION}, handlers use {active}")

    # ------------------------------------------------------------------------------
    async def step_rx(self, line: str) -> None:
        gw, tr = self.gateway, self.transport
        before = real_snapshot(gw)
        tr.take_writes()
        attempts0 = tr.attempts
        t0 = time.time()
        kind, value = await self.stepper.rx(line)
        t1 = time.time()
        writes = tr.take_writes()
        failed = [ev[2] for ev in tr.events if ev[0] == "write-fail" and ev[1] >= attempts0]
        after = real_snapshot(gw)
        self.stats["steps:rx"] += 1

        hint: dict[str, Any] = {"kind": kind, "writes": writes}
        if kind == "error":
            info = exc_info(value)
            hint.update(info)
            self.stats[f"outcome:error:{info['class']}"] += 1
            if not is_library_error(value):
                self.bad("C03", "foreign-exception-" + info["class"],
                         f"listen raised {info['class']}({value!s:.80}) in {info.get('raised_in')} for {line!r:.100}")
        else:
            self.stats["outcome:yield"] += 1
        try:
            hint["proto"] = gw.protocol.VERSION
        except Exception:  # noqa: BLE001
            pass
        for w in writes:
            parsed = split_line(w)
            if parsed and parsed[2] == 3 and parsed[4] == spec.I_ID_RESPONSE:
                hint["id_response"] = spec_int(parsed[5])
        for w in failed:
            parsed = split_line(w)
            if parsed and parsed[2] == 3 and parsed[4] == spec.I_ID_RESPONSE:
                hint["id_response_failed"] = spec_int(parsed[5])
        hint["registry_ids"] = set(after)
        hint["registry_changed"] = after != before
        hint["presreq_failed"] = any((split_line(w) or (0,) * 6)[4] == spec.I_PRESENTATION for w in failed)
        node0 = after.get(0)
        hint["node0_recreated"] = node0 is not None and node0 != before.get(0)

        outstanding_before = set(self.model.outstanding)
        two_x_before = spec.is2x(self.model.proto)
        model_before = self.model.snapshot()
        model_nodes_before = set(self.model.nodes)
        handed_before = set(self.model.handed_out)
        exp = self.model.rx(line, hint)
        self.trace.append({"op": ["rx", line], "outcome": kind, "writes": writes})
        for point in exp.open_points:
            self.stats[f"open:{point}"] += 1

        # C10 at property level: whichever message kinds the implementation rejects for a missing node or child - also
        # kinds the model lets pass - under 2.x every such rejection asks the node to present itself (once per episode)
        if kind == "error" and two_x_before and hint.get("class") in ("MissingNodeError", "MissingChildError") \
                and not any(tag == "presreq" for tag, _item in exp.writes):
            parsed_line = split_line(line)
            sender = parsed_line[0] if parsed_line else None
            asked = [w for w in [*writes, *failed] if (split_line(w) or (0,) * 6)[2:5:2] == (3, spec.I_PRESENTATION)]
            self.stats["clause:rejection-asks"] += 1
            if sender is not None and sender not in outstanding_before and not asked:
                self.bad("C10", "rejection-without-request", f"{line!r:.80} was rejected with {hint.get('class')} under a 2.x "
                                                               f"protocol, no presentation request is outstanding for node "
                                                               f"{sender}, and none was written")
            elif sender is not None and asked and not failed:
                self.model.outstanding.add(sender)
        reply_types = set(self.case.get("fail_reply_types") or ())
        failed_replies = [w for w in failed if (split_line(w) or (0,) * 6)[2] == 3 and (split_line(w) or (0,) * 6)[4] in reply_types]
        if failed and len(failed_replies) == len(failed):
            # a reply of the controller could not be written: the step may end in a transport error and later reactions of
            # the same step may be missing, but nothing unspecified is written and - what the registry records is what was
            # REPORTED (C04), not what could be answered - the registry still takes the message's effect
            self.stats["clause:reply-write-failed"] += 1
            if kind == "error":
                info = exc_info(value)
                if info["library"] and info["class"] not in ("TransportError", "TransportFailedError", "TransportReadError"):
                    if not exp.error or info["class"] not in exp.error:
                        self.bad("C04", "wrong-error-class", f"{line!r:.80}: a reply write failed, listen raised {info['class']}")
            expected = Counter(item for tag, item in exp.writes if tag not in ("time", "idresp"))
            addressed = {(tag, item) for tag, item in exp.writes if tag in ("time", "idresp")}

            def specified_reply(w: str) -> bool:
                parsed = split_line(w) or (0,) * 6
                if parsed[2] != 3:
                    return False
                if parsed[4] == spec.I_TIME:
                    return ("time", (parsed[0], parsed[1])) in addressed
                if parsed[4] == spec.I_ID_RESPONSE:
                    return ("idresp", (parsed[0], parsed[1])) in addressed
                return False

            extra = [w for w in (Counter(writes) - expected).elements() if not specified_reply(w)]
            if extra:
                self.bad("C06", "unspecified-write", f"after {line!r:.80} (a reply write failed): wrote {extra}, specified "
                                                     f"reactions {[item for _t, item in exp.writes]}")
        elif kind == "dropped":
            # consumed without a yield and without an error: C04's "every successfully handled line is yielded exactly once"
            self.stats["outcome:dropped"] += 1
            if exp.outcome == "yield":
                self.bad("C04", "line-dropped", f"{line!r:.80} was consumed without being yielded and without an error")
            else:
                self.bad("C04", "missing-ref-not-rejected", f"{line!r:.80} was silently dropped although it must fail with {exp.error}")
            self.compare_writes(line, exp, writes, failed, t0, t1, model_nodes_before, handed_before, before, after)
        else:
            self.compare_outcome(line, exp, kind, value)
            self.compare_writes(line, exp, writes, failed, t0, t1, model_nodes_before, handed_before, before, after)
        # registry
        self.stats["clause:registry"] += 1
        diff = masked_equal(self.model.snapshot(), after, exp.registry_may_differ_for)
        if diff:
            self.bad("C04", "registry-differs", f"after {line!r:.80}: {diff}")
        if exp.outcome == "error" and exp.error_id is not None:
            self.stats["clause:missing-changes-nothing"] += 1
            if after != before:
                self.bad("C04", "missing-ref-changed-registry", f"{line!r:.80} failed but changed the registry")
        _ = model_before

    def compare_outcome(self, line: str, exp: Expect, kind: str, value: Any) -> None:
        self.stats["clause:outcome"] += 1
        if exp.outcome == "yield":
            if kind != "yield":
                info = exc_info(value)
                prop = "C05" if info["class"] == "UnsupportedMessageError" else (
                    "C02" if info["class"] == "InvalidMessageError" and exp.decoded else "C04")
                if not info["library"]:
                    prop = "C03"
                self.bad(prop, "unexpected-error-" + info["class"], f"{line!r:.80} should be handled, raised {info}")
                if prop == "C05":
                    self.bad("C04", "unexpected-error-" + info["class"], f"{line!r:.80} should be yielded, raised {info}")
            else:
                self.stats["clause:yield-fields"] += 1
                if fields_of(value) != exp.fields:
                    self.bad("C04", "yield-fields-differ", f"yielded {fields_of(value)!r:.120} for {line!r:.80}")
            return
        # model demands an error
        if kind == "yield":
            if "UnsupportedMessageError" in exp.error:
                self.bad("C05", "unsupported-type-accepted", f"{line!r:.80} not refused under protocol {self.model.proto}")
            elif exp.error == ("InvalidMessageError",) and not exp.decoded:
                self.bad("C02", "illformed-line-accepted", f"{line!r:.80} yielded")
            else:
                self.bad("C04", "missing-ref-not-rejected", f"{line!r:.80} yielded although it must fail with {exp.error}")
            return
        info = exc_info(value)
        if not info["library"]:
            # already reported under C03; where the line refers to a node / child that is not there it also is not the
            # "error that names that node or child" of C04
            if exp.error_id is not None:
                self.bad("C04", "missing-ref-foreign-error", f"{line!r:.80}: raised {info['class']} instead of {exp.error}")
            return
        if exp.error and info["class"] not in exp.error:
            if "UnsupportedMessageError" in (info["class"], *exp.error):
                self.bad("C05", "unsupported-mismatch", f"{line!r:.80}: raised {info['class']}, expected {exp.error}")
            self.bad("C04", "wrong-error-class", f"{line!r:.80}: raised {info['class']}, expected one of {exp.error}")
            return
        if exp.error_id is not None and info["class"] in ("MissingNodeError", "MissingChildError"):
            self.stats["clause:error-names-id"] += 1
            attr, want = exp.error_id
            if info["class"] == ("MissingNodeError" if attr == "node_id" else "MissingChildError"):
                got = info.get(attr)
                if got != want:
                    key = "missing-child-names-node" if attr == "child_id" else "missing-node-wrong-id"
                    self.bad("C04", key, f"{line!r:.80}: {info['class']}.{attr} = {got!r}, the missing one is {want}")

    def compare_writes(self, line, exp, writes, failed, t0, t1, model_nodes_before, handed_before, before, after) -> None:
        want = Counter()
        time_targets = []
        id_targets = []
        for tag, item in exp.writes:
            if tag == "time":
                time_targets.append(item)
            elif tag == "idresp":
                id_targets.append(item)
            else:
                want[(tag, item)] += 1
        got = Counter(writes)
        attempted = Counter(writes) + Counter(failed)

        # --- C10 projection: type-19 writes
        self.stats["clause:presreq"] += 1
        want19 = sum(n for (tag, _), n in want.items() if tag == "presreq")
        got19_lines = [w for w in attempted.elements() if (split_line(w) or (0,) * 6)[2:5:2] == (3, spec.I_PRESENTATION)]
        want19_lines = [item for (tag, item), n in want.items() if tag == "presreq" for _ in range(n)]
        if sorted(got19_lines) != sorted(want19_lines):
            key = "presreq-missing" if len(got19_lines) < want19 else (
                "presreq-extra" if len(got19_lines) > want19 else "presreq-misaddressed")
            self.bad("C10", key, f"after {line!r:.80}: presentation requests written {got19_lines} expected {want19_lines} "
                                  f"(outstanding before: model {sorted(self.model.outstanding)})")
        # --- time replies (C06, bracketed)
        rest = [w for w in writes if w not in got19_lines]
        for n, c in time_targets:
            self.stats["clause:time-reply"] += 1
            lo, hi = local_epoch_bounds(t0, t1)
            hit = None
            for w in rest:
                parsed = split_line(w)
                if parsed and parsed[:5] == (n, c, 3, 0, spec.I_TIME):
                    hit = w
                    value = spec_int(parsed[5])
                    if value is None or not lo <= value <= hi:
                        self.bad("C06", "time-reply-not-local-epoch",
                                 f"time reply {w!r} outside local epoch seconds [{lo}, {hi}]")
                    break
            if hit is None:
                self.bad("C06", "reaction-missing", f"no time reply to {line!r:.80}; writes {writes}")
            else:
                rest.remove(hit)
        # --- id responses (C11 + C06 addressing)
        for n, c in id_targets:
            self.stats["clause:id-response"] += 1
            hit = None
            for w in rest:
                parsed = split_line(w)
                if parsed and parsed[2] == 3 and parsed[4] == spec.I_ID_RESPONSE:
                    hit = w
                    new_id = spec_int(parsed[5])
                    if parsed[:2] != (n, c) or parsed[3] != 0:
                        self.bad("C11", "id-response-misaddressed", f"id response {w!r} to request {line!r:.80}")
                        self.bad("C06", "reaction-misaddressed", f"id response {w!r} to request {line!r:.80}")
                    if new_id is None or not 1 <= new_id <= 254:
                        self.bad("C11", "id-out-of-range", f"id response {w!r}")
                    elif new_id in model_nodes_before:
                        self.bad("C11", "id-already-registered", f"handed out id {new_id} that is in the registry "
                                                                   f"{sorted(model_nodes_before)}")
                    elif new_id in handed_before:
                        self.bad("C11", "id-handed-out-twice", f"id {new_id} handed out again")
                    break
            if hit is None:
                if not failed:
                    self.bad("C11", "id-response-missing", f"no id response to {line!r:.80}; writes {writes}")
                    self.bad("C06", "reaction-missing", f"no id response to {line!r:.80}; writes {writes}")
            else:
                rest.remove(hit)
        # --- flush projection (C07) and remaining reactions (C06)
        want_flush = sorted(item for (tag, item), n in want.items() if tag == "flush" for _ in range(n))
        want_other = sorted(item for (tag, item), n in want.items() if tag in ("reaction", "version-query")
                            for _ in range(n))
        if exp.wake is not None:
            self.stats["clause:wake-flush"] += 1
            got_sets = sorted(w for w in rest if (split_line(w) or (0, 0, -1))[2] == 1)
            if got_sets != want_flush and not failed:
                extra = [w for w in got_sets if w not in want_flush]
                missing = [w for w in want_flush if w not in got_sets]
                key = "flush-missing" if missing else "flush-extra"
                if extra and any(split_line(w)[0] != exp.wake for w in extra):
                    key = "flush-releases-other-node"
                self.bad("C07", key, f"wake of node {exp.wake} by {line!r:.60}: released {got_sets} expected {want_flush}")
            rest = [w for w in rest if w not in got_sets]
        else:
            # lines that are specified reactions of this step (e.g. a req reply that happens to spell the same text as a
            # parked command) are not leaks: only what is left after removing them is compared with the buffer
            unexplained = list(rest)
            for expected_line in want_other:
                if expected_line in unexplained:
                    unexplained.remove(expected_line)
            parked_lines = set(self.model.parked.values())
            leaked = [w for w in unexplained if w in parked_lines]
            if leaked:
                self.bad("C07", "flush-at-non-wake", f"{line!r:.60} is no wake message but released {leaked}")
        self.stats["clause:reactions"] += 1
        got_other = sorted(rest)
        if got_other != want_other and not failed:
            missing = [w for w in want_other if w not in got_other]
            extra = [w for w in got_other if w not in want_other]
            if missing and any("0;255;3;0;2;" == m.strip() for m in missing):
                key = "version-query-missing"
            elif extra and any("0;255;3;0;2;" == e.strip() for e in extra):
                key = "version-query-extra"
            elif missing:
                key = "reaction-missing"
            else:
                key = "reaction-extra"
            self.bad("C06", key, f"after {line!r:.80}: wrote {got_other}, specified reactions {want_other}")
        # C11: registered at the moment the response is written
        for attempt, registered in self._nodes_at_write.items():
            self.stats["clause:id-registered-before-write"] += 1
            if not registered:
                self.bad("C11", "id-not-registered-at-write", f"id response written before the id was registered ({line!r:.60})")
        self._nodes_at_write.clear()
        if exp.outcome == "error" and "TooManyNodesError" in exp.error:
            self.stats["clause:too-many-nodes"] += 1
            if "too-many-nodes-while-free" in exp.open_points:
                self.bad("C11", "too-many-nodes-while-free",
                         f"TooManyNodesError although an id above the highest registered id ({max(model_nodes_before, default=0)}) is free")
                self.bad("C06", "reaction-missing",
                         f"id request {line!r:.60} got no id response (TooManyNodesError) although an id above the highest "
                         f"registered id ({max(model_nodes_before, default=0)}) is free")
            if after != before:
                self.bad("C11", "too-many-nodes-changed-registry", "registry changed by a failed id request")
            if [w for w in writes if w.strip() != "0;255;3;0;2;"]:
                self.bad("C11", "too-many-nodes-wrote", f"failed id request wrote {writes}")

    # ------------------------------------------------------------------------------
    async def step_tx(self, fields: tuple, buffered: bool) -> None:
        from aiomysensors.model.message import Message

        tr = self.transport
        tr.take_writes()
        attempts0 = tr.attempts
        kind, value = await self.stepper.tx(Message(*fields), message_buffer=buffered)
        writes = tr.take_writes()
        failed = [ev[2] for ev in tr.events if ev[0] == "write-fail" and ev[1] >= attempts0]
        exp = self.model.tx(fields, buffered)
        self.stats["steps:tx"] += 1
        self.trace.append({"op": ["tx", list(fields), buffered], "outcome": kind, "writes": writes})
        want = [item for _tag, item in exp.writes]
        is_set = fields[2] == spec.CMD_SET
        prop = "C07" if is_set else "C12"
        self.stats[f"clause:send-{'set' if is_set else 'other'}"] += 1
        if kind == "error":
            if not is_library_error(value):
                self.bad("C12", "send-foreign-exception-" + type(value).__name__,
                         f"send({fields!r:.80}) raised {type(value).__name__}: {value!s:.80}")
            elif not failed:
                self.bad(prop, "send-raised", f"send({fields!r:.80}, buffered={buffered}) raised {type(value).__name__}")
            return
        if writes != want:
            if is_set and not want:
                key = "sleeping-set-written-immediately"
            elif is_set and not writes:
                key = "awake-set-not-written"
            elif not writes:
                key = "send-not-written"
            else:
                key = "send-altered"
            self.bad(prop, key, f"send({fields!r:.80}, buffered={buffered}) wrote {writes}, expected {want}")
            if prop == "C07" and key in ("awake-set-not-written",):
                self.bad("C12", "send-not-written", f"send({fields!r:.80}) returned without a write")


def spec_int(text: str) -> int | None:
    try:
        return int(text)
    except ValueError:
        return None


async def run_history(case: dict, stats: Counter | None = None) -> tuple[list[Mismatch], Lockstep]:
    ls = Lockstep(case, stats=stats)
    mismatches = await ls.run()
    return mismatches, ls
