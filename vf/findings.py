"""KNOWN_FINDINGS.txt: committed, never written at run time.

Line formats (everything else is a comment):
  finding: property=C15 key=<mechanism-key> <what fails>
  fixed: property=C01 <commit> key=<mechanism-key> <what failed>
An open `finding:` makes the check print `KNOWN-FINDING:` and exit 0 for violations
whose classifier key equals the listed key.  A `fixed:` entry suppresses nothing.
"""

from __future__ import annotations

import re

from .ctx import VERIF_DIR

FILE = VERIF_DIR / "KNOWN_FINDINGS.txt"


def load(pid: str) -> tuple[set[str], set[str]]:
    open_keys: set[str] = set()
    fixed_keys: set[str] = set()
    if not FILE.exists():
        return open_keys, fixed_keys
    for line in FILE.read_text().splitlines():
        line = line.strip()
        match = re.match(r"^(finding|fixed):\s+property=(\S+)\s+(.*)$", line)
        if not match or match.group(2) != pid:
            continue
        key = re.search(r"\bkey=(\S+)", match.group(3))
        if not key:
            continue
        (open_keys if match.group(1) == "finding" else fixed_keys).add(key.group(1))
    return open_keys, fixed_keys
