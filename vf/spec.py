"""Executable wire specification written from the property statements and the MySensors
serial-API documentation - NOT from the code under test.

* cross-field rules and the C02 recognizer (must-accept / must-reject / either)
* per-version internal / stream type tables (C05)
* protocol selection map (C05)
"""

from __future__ import annotations

import re
from typing import Any

VERSIONS = ["1.4", "1.5", "2.0", "2.1", "2.2"]
VERSION_TUPLES = {"1.4": (1, 4), "1.5": (1, 5), "2.0": (2, 0), "2.1": (2, 1), "2.2": (2, 2)}

# MySensors serial API: internal message sub-types that exist per protocol version
INTERNAL_MAX = {"1.4": 14, "1.5": 17, "2.0": 28, "2.1": 28, "2.2": 33}
STREAM_MAX = 5

CMD_PRESENTATION, CMD_SET, CMD_REQ, CMD_INTERNAL, CMD_STREAM = range(5)
SYSTEM_CHILD = 255

I_BATTERY, I_TIME, I_VERSION, I_ID_REQUEST, I_ID_RESPONSE = 0, 1, 2, 3, 4
I_CONFIG, I_LOG, I_SKETCH_NAME, I_SKETCH_VERSION, I_REBOOT, I_GATEWAY_READY = 6, 9, 11, 12, 13, 14
I_PRESENTATION, I_DISCOVER_REQUEST, I_DISCOVER_RESPONSE, I_HEARTBEAT_RESPONSE = 19, 20, 21, 22
I_PRE_SLEEP = 32


def internal_exists(version: str, mtype: int) -> bool:
    return 0 <= mtype <= INTERNAL_MAX[version]


def stream_exists(version: str, mtype: int) -> bool:  # noqa: ARG001
    return 0 <= mtype <= STREAM_MAX


def is2x(version: str) -> bool:
    return VERSION_TUPLES[version] >= (2, 0)


# ---------------------------------------------------------------------------------------
# C05: protocol selection
_RELEASE = re.compile(r"^(0|[1-9][0-9]{0,17})\.(0|[1-9][0-9]{0,17})(\.(0|[1-9][0-9]{0,17})){0,2}$")


def release_major_minor(text: str) -> tuple[int, int] | None:
    """(major, minor) for a plain release string major.minor[.patch[.build]], else None."""
    match = _RELEASE.match(text)
    if not match:
        return None
    return int(match.group(1)), int(match.group(2))


_PRERELEASE = re.compile(r"^(0|[1-9][0-9]{0,17})\.(0|[1-9][0-9]{0,17})(\.(0|[1-9][0-9]{0,17})){0,2}([-+][0-9A-Za-z.+-]+|(a|b|rc|alpha|beta|dev)[0-9.]*)$")


def modifier_major_minor(text: str) -> tuple[int, int] | None:
    """(major, minor) of a release string that carries a pre-release / build modifier (2.2.0-beta, 2.2.0-rc.1,
    2.2.0+build, 2.0b1).  Whether such a report is accepted is open; IF it is accepted (stored as the reported
    version) the rules in force must still be those of its major.minor."""
    match = _PRERELEASE.match(text)
    if not match:
        return None
    return int(match.group(1)), int(match.group(2))


def newest_not_above(mm: tuple[int, int]) -> str:
    best = "1.4"
    for name in VERSIONS:
        if VERSION_TUPLES[name] <= mm:
            best = name
    return best


def pmap(version_text: str | None) -> str | None:
    """Newest supported protocol whose major.minor does not exceed the reported release.

    None (no report yet) selects 1.4.  Returns None when the string is not a plain release
    version (the statement does not say what such a report selects).
    """
    if version_text is None:
        return "1.4"
    mm = release_major_minor(version_text)
    if mm is None:
        return None
    best = "1.4"
    for name in VERSIONS:
        if VERSION_TUPLES[name] <= mm:
            best = name
    return best


# ---------------------------------------------------------------------------------------
# C01 / C02: well-formedness
def rules_ok(node: int, child: int, cmd: int, ack: int, mtype: int) -> bool:
    """Ranges and cross-field rules of the statement."""
    if not (0 <= node <= 255 and 0 <= child <= 255 and 0 <= cmd <= 4 and ack in (0, 1)):
        return False
    if cmd in (CMD_INTERNAL, CMD_STREAM) and child != SYSTEM_CHILD:
        if not (cmd == CMD_INTERNAL and mtype in (I_ID_REQUEST, I_ID_RESPONSE)):
            return False
    if child == SYSTEM_CHILD and cmd in (CMD_SET, CMD_REQ):
        return False
    return True


_PLAIN = re.compile(r"^(0|-?[1-9][0-9]*)$")
# forms Python's int() tolerates beyond plain decimal: surrounding blanks, sign, leading
# zeros, underscores, non-ASCII decimal digits
LINE_TERMINATORS = "\n\r\x0b\x0c\x1c\x1d\x1e\x85  "
ASCII_TRAILING = " \t\r\n"
MAX_PLAIN_DIGITS = 400


def classify_number(text: str) -> tuple[str, int | None]:
    """Return (class, value): plain | lenient | junk."""
    if _PLAIN.match(text):
        if len(text) > MAX_PLAIN_DIGITS:
            return "lenient", int(text) if len(text) < 4000 else None
        return "plain", int(text)
    try:
        value = int(text)
    except ValueError:
        return "junk", None
    return "lenient", value


def recognize(line: str) -> dict[str, Any]:
    """Independent recognizer for C02.

    verdict: 'accept' (must), 'reject' (must) or 'either'.  For accept/either, `fields`
    are the values an accepting decoder must produce.
    """
    stripped = line.rstrip()
    exotic_tail = line.rstrip(ASCII_TRAILING) != stripped
    parts = stripped.split(";")
    if len(parts) < 6:
        if exotic_tail and len(line.rstrip(ASCII_TRAILING).split(";")) >= 6:
            return {"verdict": "either-reject", "why": "exotic trailing whitespace"}
        return {"verdict": "reject", "why": f"{len(parts)} fields"}
    payload = ";".join(parts[5:])
    classes = []
    values: list[int] = []
    for text in parts[:5]:
        cls, value = classify_number(text)
        if cls == "junk":
            return {"verdict": "reject", "why": f"non-integer field {text!r}"}
        if value is None:
            return {"verdict": "either-reject", "why": "huge integer"}
        classes.append(cls)
        values.append(value)
    if not rules_ok(*values):
        return {"verdict": "reject", "why": "range or cross-field rule"}
    fields = (*values, payload)
    if all(cls == "plain" for cls in classes) and not exotic_tail:
        return {"verdict": "accept", "fields": fields}
    alt = None
    if exotic_tail:
        # a decoder that strips only ASCII blanks keeps the exotic tail in the payload
        alt = (*values, ";".join(line.rstrip(ASCII_TRAILING).split(";")[5:]))
    return {"verdict": "either", "fields": fields, "alt_fields": alt,
            "why": "lenient number form" if not exotic_tail else "exotic trailing whitespace"}


def payload_ok_for_roundtrip(payload: str) -> bool:
    """C01: free of line terminators and of trailing whitespace."""
    if any(ch in LINE_TERMINATORS for ch in payload):
        return False
    return payload == payload.rstrip()
