"""Run context: counters, distinctness, violations, evidence, verdicts.

Verdicts are three-valued (DESIGN 2.9):
  exit 0  held on what was observed (KNOWN-FINDING lines for listed open findings)
  exit 1  VIOLATION property=<id> replay=<path>   (one line per unlisted mechanism key)
  exit 2  INCONCLUSIVE property=<id> reason=...    (a deciding monitor never ran)
"""

from __future__ import annotations

from collections import Counter
import hashlib
import json
import os
from pathlib import Path
import random
import time
from typing import Any

VERIF_DIR = Path(__file__).resolve().parent.parent
MAX_SAMPLES = 10
MAX_WITNESS_PER_KEY = 3


def h64(obj: Any) -> int:
    """Stable 64 bit hash of a canonical (repr-able) object."""
    data = repr(obj).encode("utf-8", "surrogatepass")
    return int.from_bytes(hashlib.blake2b(data, digest_size=8).digest(), "big")


def jsonable(obj: Any) -> Any:
    """Convert witness data into something json.dump accepts."""
    if isinstance(obj, (str, int, float, bool)) or obj is None:
        if isinstance(obj, str):
            # lone surrogates cannot be written as UTF-8
            return obj.encode("utf-8", "backslashreplace").decode("utf-8")
        if isinstance(obj, float) and (obj != obj or obj in (float("inf"), float("-inf"))):
            return repr(obj)
        return obj
    if isinstance(obj, bytes):
        return {"__bytes__": obj.hex()}
    if isinstance(obj, dict):
        return {str(k): jsonable(v) for k, v in obj.items()}
    if isinstance(obj, (list, tuple, set, frozenset)):
        seq = list(obj)
        if isinstance(obj, (set, frozenset)):
            seq = sorted(seq, key=repr)
        return [jsonable(v) for v in seq]
    return repr(obj)


class Ctx:
    """Everything one check run (or one shard of it) accumulates."""

    def __init__(self, pid: str, tier: str, seed: int, shard: tuple[int, int] = (0, 1)) -> None:
        self.pid = pid
        self.tier = tier
        self.seed = seed
        self.shard_index, self.shard_count = shard
        self.rng = random.Random(f"{pid}:{seed}:{self.shard_index}")
        self.evaluations = 0
        self.distinct: set[int] = set()
        self.samples: list[Any] = []
        self.observed: Counter[str] = Counter()
        self.clauses: Counter[str] = Counter()
        self.reach: Counter[str] = Counter()
        self.violations: list[dict[str, Any]] = []
        self.violation_counts: Counter[str] = Counter()
        self.requirements: dict[str, int] = {}
        self.notes: list[str] = []
        self.exhaustive: dict[str, Any] = {}
        self.inconclusive: list[str] = []
        self.t0 = time.monotonic()
        self._case_counter = 0

    # -- workload partitioning ------------------------------------------------
    @property
    def quick(self) -> bool:
        return self.tier == "quick"

    def mine(self, index: int | None = None) -> bool:
        """Return True if the case with this running index belongs to this shard."""
        if index is None:
            index = self._case_counter
            self._case_counter += 1
        return index % self.shard_count == self.shard_index

    def pick(self, quick: Any, thorough: Any) -> Any:
        return quick if self.quick else thorough

    # -- recording --------------------------------------------------------------
    def case(self, canon: Any, *, nontrivial: bool = True, sample: Any = None) -> None:
        """Count one explored case; canon identifies it for distinctness."""
        self.evaluations += 1
        if nontrivial:
            self.distinct.add(h64(canon))
        if sample is not None and len(self.samples) < MAX_SAMPLES:
            # spread samples: keep the first few and then thin out
            if len(self.samples) < 4 or self.evaluations % 997 == 0:
                self.samples.append(jsonable(sample))

    def obs(self, name: str, n: int = 1) -> None:
        self.observed[name] += n

    def clause(self, name: str, n: int = 1) -> None:
        """An oracle clause was evaluated n times."""
        self.clauses[name] += n

    def require(self, clause: str, minimum: int = 1) -> None:
        """The run is inconclusive unless this clause was evaluated >= minimum times."""
        self.requirements[clause] = max(self.requirements.get(clause, 0), minimum)

    def violation(self, key: str, what: str, case: Any, *, prop: str | None = None) -> None:
        """Record a violation with mechanism key, description and replayable case."""
        prop = prop or self.pid
        if prop != self.pid:
            # a different property's clause: counted as an observation only
            self.observed[f"other-property-mismatch:{prop}:{key}"] += 1
            return
        self.violation_counts[key] += 1
        if self.violation_counts[key] <= MAX_WITNESS_PER_KEY:
            self.violations.append({"key": key, "what": what, "case": jsonable(case)})

    def note(self, text: str) -> None:
        if text not in self.notes:
            self.notes.append(text)

    def skip(self, what: str, why: str) -> None:
        self.note(f"skipped {what}: {why}")
        self.observed[f"skipped:{what}"] += 1

    # -- (de)serialisation for shards ----------------------------------------
    def dump_partial(self) -> dict[str, Any]:
        return {
            "evaluations": self.evaluations,
            "distinct": sorted(self.distinct),
            "samples": self.samples,
            "observed": dict(self.observed),
            "clauses": dict(self.clauses),
            "reach": dict(self.reach),
            "violations": self.violations,
            "violation_counts": dict(self.violation_counts),
            "requirements": self.requirements,
            "notes": self.notes,
            "exhaustive": self.exhaustive,
            "inconclusive": self.inconclusive,
        }

    def merge_partial(self, part: dict[str, Any]) -> None:
        self.evaluations += part["evaluations"]
        self.distinct.update(part["distinct"])
        for sample in part["samples"]:
            if len(self.samples) < MAX_SAMPLES:
                self.samples.append(sample)
        self.observed.update(part["observed"])
        self.clauses.update(part["clauses"])
        self.reach.update(part["reach"])
        for vio in part["violations"]:
            have = sum(1 for v in self.violations if v["key"] == vio["key"])
            if have < MAX_WITNESS_PER_KEY:
                self.violations.append(vio)
        self.violation_counts.update(part["violation_counts"])
        for clause, minimum in part["requirements"].items():
            self.require(clause, minimum)
        for note in part["notes"]:
            self.note(note)
        for key, value in part["exhaustive"].items():
            if isinstance(value, int) and isinstance(self.exhaustive.get(key), int):
                self.exhaustive[key] += value
            else:
                self.exhaustive[key] = value
        self.inconclusive.extend(part["inconclusive"])


def scratch_dir(name: str) -> Path:
    """Return a fresh scratch directory outside /repo and /verif (removed by caller)."""
    import tempfile

    base = os.environ.get("VERIF_SCRATCH") or tempfile.gettempdir()
    return Path(tempfile.mkdtemp(prefix=f"vf-{name}-", dir=base))


def write_json(path: Path, data: Any) -> None:
    path.parent.mkdir(parents=True, exist_ok=True)
    tmp = path.with_suffix(path.suffix + ".tmp")
    tmp.write_text(json.dumps(data, indent=1, sort_keys=True, ensure_ascii=True) + "\n")
    os.replace(tmp, path)
