"""Child process for C15: build a registry from a JSON spec and perform ONE Persistence.save().

usage: python -m vf.c15_child <persistence path> <spec.json> [--wait]
With --wait the child prints READY and blocks on stdin before saving (live-kill mode).
"""

import asyncio
import json
import sys


def build(spec: dict) -> dict:
    from aiomysensors.model.node import Child, Node

    nodes = {}
    for key, data in spec.items():
        children = {int(cid): Child(int(cid), ch["child_type"], description=ch["description"],
                                    values={int(k): v for k, v in ch["values"].items()})
                    for cid, ch in data["children"].items()}
        nodes[int(key)] = Node(int(key), data["node_type"], data["protocol_version"], children=children,
                               sketch_name=data["sketch_name"], sketch_version=data["sketch_version"],
                               battery_level=data["battery_level"], heartbeat=data["heartbeat"], sleeping=data["sleeping"])
    return nodes


def main() -> int:
    from aiomysensors.persistence import Persistence

    path, spec_path = sys.argv[1], sys.argv[2]
    with open(spec_path, encoding="utf-8") as fil:
        spec = json.load(fil)
    nodes = build(spec)
    persistence = Persistence(nodes, path)
    if "--wait" in sys.argv:
        sys.stdout.write("READY\n")
        sys.stdout.flush()
        sys.stdin.readline()
    asyncio.run(persistence.save())
    return 0


if __name__ == "__main__":
    sys.exit(main())
