"""A ~150-line asyncio MQTT 3.1.1 broker subset on loopback, so that the REAL aiomqtt + paho
client stack is exercised end to end (C18 thorough).  CONNECT, SUBSCRIBE (+ / # matching),
UNSUBSCRIBE, PUBLISH QoS 0/1 (+ PUBACK), PINGREQ, DISCONNECT."""

from __future__ import annotations

import asyncio


def encode_len(n: int) -> bytes:
    out = bytearray()
    while True:
        byte = n % 128
        n //= 128
        out.append(byte | (0x80 if n else 0))
        if not n:
            return bytes(out)


def mqtt_str(text: str) -> bytes:
    data = text.encode("utf-8")
    return len(data).to_bytes(2, "big") + data


def matches(filter_: str, topic: str) -> bool:
    f_levels, t_levels = filter_.split("/"), topic.split("/")
    for i, level in enumerate(f_levels):
        if level == "#":
            return True
        if i >= len(t_levels):
            return False
        if level != "+" and level != t_levels[i]:
            return False
    return len(f_levels) == len(t_levels)


class MiniBroker:
    def __init__(self) -> None:
        self.server: asyncio.AbstractServer | None = None
        self.port = 0
        self.subscriptions: list[tuple[str, int]] = []
        self.published: list[tuple[str, bytes, int]] = []
        self.writers: list[tuple[asyncio.StreamWriter, list[tuple[str, int]]]] = []
        self._pid = 0
        self.disconnects = 0
        self.by_client_id: dict[str, asyncio.StreamWriter] = {}
        self.takeovers: list[str] = []

    async def start(self) -> None:
        self.server = await asyncio.start_server(self._client, "127.0.0.1", 0)
        self.port = self.server.sockets[0].getsockname()[1]

    async def stop(self) -> None:
        for writer, _subs in self.writers:
            writer.close()
        if self.server is not None:
            self.server.close()
            await self.server.wait_closed()

    async def publish(self, topic: str, payload: bytes, qos: int = 0) -> None:
        for writer, subs in list(self.writers):
            granted = [q for f, q in subs if matches(f, topic)]
            if not granted:
                continue
            q = min(qos, max(granted))
            body = mqtt_str(topic)
            if q:
                self._pid = self._pid % 65535 + 1
                body += self._pid.to_bytes(2, "big")
            body += payload
            writer.write(bytes([0x30 | (q << 1)]) + encode_len(len(body)) + body)
            await writer.drain()

    async def _read_packet(self, reader: asyncio.StreamReader) -> tuple[int, bytes]:
        head = (await reader.readexactly(1))[0]
        mult, length = 1, 0
        while True:
            byte = (await reader.readexactly(1))[0]
            length += (byte & 0x7F) * mult
            mult *= 128
            if not byte & 0x80:
                break
        return head, await reader.readexactly(length) if length else b""

    async def _client(self, reader: asyncio.StreamReader, writer: asyncio.StreamWriter) -> None:
        subs: list[tuple[str, int]] = []
        self.writers.append((writer, subs))
        try:
            while True:
                head, body = await self._read_packet(reader)
                ptype = head >> 4
                if ptype == 1:  # CONNECT
                    try:
                        name_len = int.from_bytes(body[:2], "big")
                        pos = 2 + name_len + 4  # protocol name, level, flags, keep-alive
                        id_len = int.from_bytes(body[pos:pos + 2], "big")
                        client_id = body[pos + 2:pos + 2 + id_len].decode("utf-8", "replace")
                    except Exception:  # noqa: BLE001
                        client_id = ""
                    old = self.by_client_id.get(client_id)
                    if client_id and old is not None and old is not writer:
                        # [MQTT-3.1.4-2] a second connection with the same client id: the existing one is disconnected
                        self.takeovers.append(client_id)
                        old.close()
                    if client_id:
                        self.by_client_id[client_id] = writer
                    writer.write(b"\x20\x02\x00\x00")
                elif ptype == 8:  # SUBSCRIBE
                    pid = body[:2]
                    pos, codes = 2, bytearray()
                    while pos < len(body):
                        n = int.from_bytes(body[pos:pos + 2], "big")
                        topic = body[pos + 2:pos + 2 + n].decode("utf-8")
                        qos = body[pos + 2 + n]
                        pos += 3 + n
                        subs.append((topic, qos))
                        self.subscriptions.append((topic, qos))
                        codes.append(qos)
                    writer.write(b"\x90" + encode_len(2 + len(codes)) + pid + bytes(codes))
                elif ptype == 10:  # UNSUBSCRIBE
                    writer.write(b"\xb0\x02" + body[:2])
                elif ptype == 3:  # PUBLISH
                    qos = (head >> 1) & 3
                    n = int.from_bytes(body[:2], "big")
                    topic = body[2:2 + n].decode("utf-8")
                    pos = 2 + n
                    if qos:
                        pid = body[pos:pos + 2]
                        pos += 2
                        writer.write(b"\x40\x02" + pid)
                    self.published.append((topic, body[pos:], qos))
                elif ptype == 12:  # PINGREQ
                    writer.write(b"\xd0\x00")
                elif ptype == 14:  # DISCONNECT
                    self.disconnects += 1
                    break
                await writer.drain()
        except (asyncio.IncompleteReadError, ConnectionError, OSError):
            pass
        finally:
            self.writers[:] = [(w, s) for w, s in self.writers if w is not writer]
            for key in [k for k, w in self.by_client_id.items() if w is writer]:
                del self.by_client_id[key]
            writer.close()
