"""Boundary harness: ScriptedTransport (record / gate / fault plan) and small helpers."""

from __future__ import annotations

import asyncio
from typing import Any, Callable

from aiomysensors.exceptions import AIOMySensorsError, TransportFailedError
from aiomysensors.gateway import Config, Gateway
from aiomysensors.model.message import Message, MessageSchema
from aiomysensors.model.protocol import get_protocol
from aiomysensors.transport import Transport

VERSIONS = ["1.4", "1.5", "2.0", "2.1", "2.2"]


class ScriptEnd(Exception):
    """Raised by ScriptedTransport.read when the harness has no more lines (harness-made)."""


FAULT_CLASSES = ("TransportFailedError", "TransportError", "HarnessTransportError", "TransportFailedError<-OSError")
# failures OUTSIDE the documented family (only where a statement speaks of "the transport fails" without naming a class: C08)
FOREIGN_FAULTS = ("foreign:RuntimeError", "foreign:OSError")


def make_fault(name: str, attempt: int) -> BaseException:
    """An injected transport failure.  A transport reports failure with the documented TransportError family: the base
    class itself (what the Transport docstrings name), TransportFailedError (what the built-in transports raise) or a
    subclass a third-party transport defines."""
    from aiomysensors.exceptions import TransportError

    text = f"injected write fault at attempt {attempt}"
    if name == "foreign:RuntimeError":
        # what the built-in MQTT client raises when asked to publish while it is not connected
        return RuntimeError("Client needs to connect before publishing.")
    if name == "foreign:OSError":
        return BrokenPipeError(32, f"Broken pipe ({text})")  # a third-party transport that lets the OS error through
    if name == "TransportError":
        return TransportError(text)
    if name == "HarnessTransportError":
        return type("HarnessTransportError", (TransportError,), {})(text)
    if name == "TransportFailedError<-OSError":
        # what the built-in stream transports raise: a TransportFailedError chained to the OS error (`raise ... from err`)
        error = TransportFailedError(f"Failed writing to stream transport: [Errno 104] Connection reset by peer ({text})")
        error.__cause__ = ConnectionResetError(104, "Connection reset by peer")
        return error
    return TransportFailedError(text)


class ScriptedTransport(Transport):
    """A Transport owned by the harness.

    * read() pops the next scripted line (ScriptEnd when exhausted);
    * write() logs a call event *before* anything else, then returns, raises a
      TransportFailedError per the fault plan, or (gate mode) awaits a future the
      Director releases - a suspension exactly where a real transport suspends.
    """

    def __init__(self) -> None:
        self.lines: list[str] = []
        self.writes: list[str] = []  # successfully written lines, in order
        self.events: list[tuple] = []  # (kind, attempt index, line)
        self.attempts = 0
        self.fail_attempts: set[int] = set()
        self.fail_predicate: Callable[[int, str], bool] | None = None
        self.on_write: Callable[[str], None] | None = None
        self.gate = False
        self.pending: list[tuple[asyncio.Future, str, int]] = []
        self.connected = 0
        self.disconnected = 0
        self.connect_error: BaseException | None = None
        self.disconnect_error: BaseException | None = None
        self.yield_on_write = False
        self.fault_class = "TransportFailedError"  # one of FAULT_CLASSES

    async def connect(self) -> None:
        self.events.append(("connect", None, None))
        if self.connect_error is not None:
            raise self.connect_error
        self.connected += 1

    async def disconnect(self) -> None:
        self.events.append(("disconnect", None, None))
        self.disconnected += 1
        if self.disconnect_error is not None:
            raise self.disconnect_error

    async def read(self) -> str:
        if not self.lines:
            raise ScriptEnd
        return self.lines.pop(0)

    async def write(self, decoded_message: str) -> None:
        attempt = self.attempts
        self.attempts += 1
        self.events.append(("write-call", attempt, decoded_message))
        if self.on_write is not None:
            self.on_write(decoded_message)
        if self.gate:
            future: asyncio.Future = asyncio.get_running_loop().create_future()
            self.pending.append((future, decoded_message, attempt))
            fail = await future
        else:
            if self.yield_on_write:
                await asyncio.sleep(0)
            fail = attempt in self.fail_attempts or bool(
                self.fail_predicate and self.fail_predicate(attempt, decoded_message))
        if fail:
            self.events.append(("write-fail", attempt, decoded_message))
            raise make_fault(self.fault_class, attempt)
        self.events.append(("write-ok", attempt, decoded_message))
        self.writes.append(decoded_message)

    def take_writes(self) -> list[str]:
        out, self.writes = self.writes, []
        return out


def schema_for(version: str, *, via_context: bool = False) -> MessageSchema:
    """A decoder for one protocol version, configured through set_protocol() or - the plain marshmallow way the field
    classes read it - through the schema context."""
    if via_context:
        try:
            return MessageSchema(context={"protocol": get_protocol(version)})
        except TypeError:
            pass  # a codec that is not a marshmallow schema has no such way of being configured: use the documented one
    schema = MessageSchema()
    schema.set_protocol(get_protocol(version))
    return schema


CONFIG_EXTRA: dict[str, Any] = {}  # non-default values for Config options the harness does not know (see unknown_options)


from contextlib import contextmanager  # noqa: E402


@contextmanager
def options(extra: dict | None):
    """Put non-default values of unknown Config options in force for the gateways built inside the block; the options that
    were in force before are restored afterwards (blocks nest)."""
    saved = dict(CONFIG_EXTRA)
    CONFIG_EXTRA.clear()
    CONFIG_EXTRA.update(extra or {})
    try:
        yield
    finally:
        CONFIG_EXTRA.clear()
        CONFIG_EXTRA.update(saved)


def unknown_options() -> list[dict]:
    """Non-default settings of every Config option this harness does not know (an option added since the properties were
    written): 'every gateway state' includes how the gateway was configured.  Empty on the unchanged tree."""
    import dataclasses

    known = {"metric", "persistence_file"}
    settings: list[dict] = []
    try:
        fields = dataclasses.fields(Config)
    except TypeError:
        return settings
    for field in fields:
        if field.name in known:
            continue
        default = field.default if field.default is not dataclasses.MISSING else None
        if isinstance(default, bool):
            settings.append({field.name: not default})
        elif isinstance(default, int):
            # (a large default is a size / an interval / a limit: halve and double it - zero there means "never sleep" or
            # "hold nothing", configurations whose consequences are the option's own)
            values = (default // 2, default * 2 + 1) if default >= 10 else (0, 1, default * 2 + 1)
            settings += [{field.name: value} for value in values if value != default]
        elif isinstance(default, float):
            values = (default / 2, default * 10) if default >= 10 else (0.0, default / 2, default * 10)
            settings += [{field.name: value} for value in values if value != default]
        elif isinstance(default, str):
            settings += [{field.name: value} for value in ("", default + "x")]
        elif default is None and field.type in ("bool | None", "bool"):
            settings += [{field.name: True}, {field.name: False}]
        elif default is None and str(field.type).startswith(("int", "float")):
            settings += [{field.name: value} for value in (5, 1000)]
    return settings


def new_gateway(version: str | None = None, *, metric: bool = True,
                persistence_file: str | None = None) -> tuple[Gateway, ScriptedTransport]:
    transport = ScriptedTransport()
    # unknown options are given to the Config constructor (a Gateway may read them while it is being built)
    gateway = Gateway(transport, Config(metric=metric, persistence_file=persistence_file, **CONFIG_EXTRA))
    if version is not None:
        gateway.protocol_version = version
    return gateway, transport


def fields_of(message: Any) -> tuple:
    """The six field values of a yielded / decoded message; anything that is not a message (None, a dict, ...) gives a
    tuple that equals no expectation, so the oracles report it instead of the harness crashing."""
    try:
        return (message.node_id, message.child_id, message.command, message.ack,
                message.message_type, message.payload)
    except AttributeError:
        return ("<not a message>", type(message).__name__, repr(message)[:60])


def line_of(fields: tuple | list) -> str:
    return ";".join(str(f) for f in fields) + "\n"


def is_library_error(exc: BaseException) -> bool:
    return isinstance(exc, AIOMySensorsError)


PUBLIC_ERRORS = ("MissingNodeError", "MissingChildError", "TooManyNodesError", "InvalidMessageError",
                 "UnsupportedMessageError", "PersistenceReadError", "PersistenceWriteError", "PersistenceError",
                 "TransportReadError", "TransportFailedError", "TransportError", "AIOMySensorsError")


def canonical_class(exc: BaseException) -> str:
    """Name of the most specific PUBLIC library exception class the error is an instance of.

    A refactor may raise new subclasses (UnknownNodeError(MissingNodeError), ...): what the properties speak
    about is the public class, so oracles compare this name, never type(exc).__name__.
    """
    import aiomysensors.exceptions as lib

    for cls in type(exc).__mro__:
        if cls.__name__ in PUBLIC_ERRORS and getattr(lib, cls.__name__, None) is cls:
            return cls.__name__
    return type(exc).__name__


def exc_info(exc: BaseException) -> dict[str, Any]:
    info: dict[str, Any] = {"class": canonical_class(exc), "raw_class": type(exc).__name__,
                            "library": is_library_error(exc)}
    for attr in ("node_id", "child_id"):
        if hasattr(exc, attr):
            info[attr] = getattr(exc, attr)
    tb = exc.__traceback__
    last = None
    while tb is not None:
        last = tb
        tb = tb.tb_next
    if last is not None:
        code = last.tb_frame.f_code
        info["raised_in"] = f"{code.co_filename.rsplit('/', 2)[-1]}:{code.co_name}"
    return info


class Stepper:
    """Drive Gateway.listen() one received line at a time through a persistent iterator."""

    def __init__(self, gateway: Gateway, transport: ScriptedTransport) -> None:
        self.gateway = gateway
        self.transport = transport
        self._iter = None

    async def rx(self, line: str) -> tuple[str, Any]:
        """Feed one line; return ('yield', message) or ('error', exception)."""
        self.transport.lines.append(line)
        if self._iter is None:
            self._iter = self.gateway.listen()
        try:
            message = await self._iter.__anext__()
        except ScriptEnd:
            # the line was consumed without a yield and without an error (filtered, swallowed): an outcome of its own
            try:
                await self._iter.aclose()
            except Exception:  # noqa: BLE001
                pass
            self._iter = None
            return "dropped", None
        except Exception as exc:  # noqa: BLE001  observation handed to the oracle
            try:
                await self._iter.aclose()
            except Exception:  # noqa: BLE001
                pass
            self._iter = None
            # a line that was not consumed must not be processed later
            if self.transport.lines and self.transport.lines[0] is line:
                self.transport.lines.pop(0)
            return "error", exc
        return "yield", message

    async def tx(self, message: Any, **kwargs: Any) -> tuple[str, Any]:
        try:
            await self.gateway.send(message, **kwargs)
        except Exception as exc:  # noqa: BLE001
            return "error", exc
        return "ok", None

    async def close(self) -> None:
        if self._iter is not None:
            try:
                await self._iter.aclose()
            except Exception:  # noqa: BLE001
                pass
            self._iter = None


_LOOP: asyncio.AbstractEventLoop | None = None


def run(coro):
    """Run a coroutine on a process-wide loop (cheaper than asyncio.run per case)."""
    global _LOOP
    if _LOOP is None or _LOOP.is_closed():
        _LOOP = asyncio.new_event_loop()
    return _LOOP.run_until_complete(coro)


def run_debug(coro):
    """Run a coroutine on a fresh event loop in asyncio DEBUG mode (asyncio.run(debug=True), python -X dev, an application's
    --debug switch): the loop then checks its own API use (call_soon with a coroutine function, cross-thread calls) and
    raises where the normal mode stays silent.  What the library promises does not depend on the loop's mode."""
    loop = asyncio.new_event_loop()
    loop.set_debug(True)
    loop.slow_callback_duration = 3600.0
    try:
        return loop.run_until_complete(coro)
    finally:
        try:
            loop.run_until_complete(loop.shutdown_asyncgens())
        finally:
            loop.close()


def make_message(fields: tuple | list) -> Message:
    return Message(*fields)


def scenario_exception(ctx, exc: BaseException, case: dict, where: str) -> None:
    """A scenario coroutine ended with an exception nobody in the scenario expected.  Raised by library code (innermost
    frame outside the harness): an observation - violation `<where>-raised`.  Raised by harness code (a helper tripping
    over what it was handed): the run is inconclusive, never a verdict."""
    import traceback

    frames = traceback.extract_tb(exc.__traceback__)
    innermost = frames[-1].filename if frames else ""
    if "/vf/" in innermost and "/aiomysensors/" not in innermost:
        ctx.inconclusive.append(f"harness error in {where}: {type(exc).__name__}: {exc!s:.200} at {innermost}:{frames[-1].lineno}")
    else:
        ctx.violation(f"{where}-raised", f"{where}: unexpected {type(exc).__name__}: {exc!s:.120} "
                                         f"(raised in {innermost.rsplit('/', 2)[-1] if innermost else '?'})", case)
