"""History generators for the lockstep checks (C03-C07, C10-C12, C19)."""

from __future__ import annotations

import itertools
import random
from typing import Iterator

from . import codedict, gens, spec

_DICT_PAYLOADS: list[str] | None = None


def dictionary_payloads() -> list[str]:
    """Payloads built from the string constants of the handler modules under test (vf.codedict): a deterministic list."""
    global _DICT_PAYLOADS
    if _DICT_PAYLOADS is None:
        try:
            systematic = codedict.systematic_candidates(codedict.HANDLER_MODULES, 400)
            _DICT_PAYLOADS = systematic + codedict.payload_candidates(codedict.HANDLER_MODULES, random.Random(20261003), 400)
        except Exception:  # noqa: BLE001 - a tree whose modules do not import is judged elsewhere
            _DICT_PAYLOADS = []
    return _DICT_PAYLOADS

NODE_POOL = [0, 1, 2, 7, 254, 255]
CHILD_POOL = [0, 1, 254]
VTYPES = [0, 2, 16, 49, -5, 10**30]

# small alphabet for bounded-exhaustive enumeration (C04): 12 symbols
ALPHABET_C04 = [
    "1;255;0;0;17;2.0",       # node 1 presents
    "2;255;0;0;18;1.5.1",     # node 2 presents
    "1;0;0;0;6;temp",         # child 0 of node 1 presents
    "1;0;1;0;0;20.5",         # set
    "1;0;2;0;0;",             # req
    "1;255;3;0;0;77",         # battery
    "1;255;3;0;11;sketch A",  # sketch name
    "1;255;3;0;12;1.2",       # sketch version
    "1;255;3;0;22;555",       # heartbeat response (2.x) / unsupported (1.x)
    "255;255;3;0;3;",         # id request
    "1;9;1;0;0;5",            # set for unknown child 9
    "7;3;1;0;0;1",            # message for unknown node 7
]


def bounded_histories(alphabet: list[str], max_len: int) -> Iterator[list[str]]:
    for length in range(1, max_len + 1):
        yield from (list(combo) for combo in itertools.product(alphabet, repeat=length))


def rx_steps(lines: list[str]) -> list[list]:
    return [["rx", line + "\n"] for line in lines]


class HistoryGen:
    """Seeded random histories over wide alphabets."""

    def __init__(self, rng: random.Random, version: str | None, *, two_x_bias: bool = False) -> None:
        self.rng = rng
        self.version = version
        self.proto = spec.pmap(version) or "1.4"
        self.two_x_bias = two_x_bias
        self.known: dict[int, set[int]] = {}
        self.uid = 0
        self.wide = False  # draw node / child ids from the full 0..255 / 0..254 range, types from the full tables

    def payload(self) -> str:
        rng = self.rng
        roll = rng.random()
        if roll < 0.08 and dictionary_payloads():
            return rng.choice(dictionary_payloads())
        if roll < 0.5:
            return rng.choice(["0", "1", "20.5", "on", "", "abc", "a;b", " x", "x y", "日本", "55.7;13.0;18", "a\rb",
                               "l1\u2028l2", "t\tt", "a\x0cb", "l1\nl2", "Temp: 21;Hum: 40\nDoor: open", "#ff8800",
                               "1.10", "1.1", "007", "7", "bad\udc80byte", "\ud800"])
        if roll < 0.7:
            return rng.choice(gens.NUMBER_PAYLOADS[:32])
        return gens.random_payload(rng, roundtrip_safe=True)

    def unique(self) -> str:
        self.uid += 1
        return f"u{self.uid}"

    def node(self, *, known: bool | None = None) -> int:
        rng = self.rng
        if self.wide and rng.random() < 0.5:
            if known is True and self.known:
                return rng.choice(sorted(self.known))
            return rng.randint(0, 255)
        if known is True and self.known:
            return rng.choice(sorted(self.known))
        if known is False:
            options = [n for n in NODE_POOL if n not in self.known]
            if options:
                return rng.choice(options)
        return rng.choice(NODE_POOL)

    def child(self, node: int, *, known: bool | None = None) -> int:
        rng = self.rng
        have = self.known.get(node, set())
        if known is True and have:
            return rng.choice(sorted(have))
        if self.wide and rng.random() < 0.5:
            return rng.randint(0, 254)
        return rng.choice(CHILD_POOL)

    def rx_line(self) -> str:
        """One received line; tracks (approximately) what is known to bias towards hits."""
        rng = self.rng
        roll = rng.random()
        if roll < 0.14:
            n = self.node()
            self.known[n] = set()
            version = rng.choice(["1.4", "2.0", "2.1.1", "2.2.0", "2.3.2", "1.5.0"]) if n == 0 else \
                rng.choice(["2.0", "1.5", self.payload()])
            return f"{n};255;0;{rng.randint(0, 1)};{rng.choice([17, 18, 0, 99])};{version}"
        if roll < 0.28:
            n = self.node(known=rng.random() < 0.85)
            c = rng.choice(CHILD_POOL)
            if n in self.known:
                self.known[n].add(c)
            ctype = rng.randint(0, 39) if self.wide else rng.choice([0, 6, 38, -5, 10**30])
            return f"{n};{c};0;{rng.choice([0, 0, 0, 1])};{ctype};{self.payload()}"
        if roll < 0.46:
            n = self.node(known=rng.random() < 0.9)
            c = self.child(n, known=rng.random() < 0.85)
            vtype = rng.randint(0, 56) if self.wide else rng.choice(VTYPES)
            return f"{n};{c};1;{rng.randint(0, 1)};{vtype};{self.payload()}"
        if roll < 0.56:
            n = self.node(known=rng.random() < 0.9)
            c = self.child(n, known=rng.random() < 0.85)
            vtype = rng.randint(0, 56) if self.wide else rng.choice(VTYPES)
            return f"{n};{c};2;{rng.choice([0, 0, 1])};{vtype};{self.payload()}"
        if roll < 0.92:
            imax = spec.INTERNAL_MAX[self.proto]
            t = rng.choice([0, 0, 1, 3, 6, 9, 11, 12, 14, 21, 22, 22, 32, 32, 19, 20, rng.randint(0, imax),
                            rng.randint(-1, 40)])
            n = self.node(known=rng.random() < 0.85)
            if t == 3:
                return f"{rng.choice([255, 255, n])};{rng.choice([255, 255, 3, 0])};3;{rng.choice([0, 0, 0, 1])};3;{self.payload()}"
            if t == 0:
                p = rng.choice(["0", "55", "100", "99.5", "7", self.payload()])
            elif t == 22:
                p = rng.choice(["0", "1234", "7", "7", self.payload()])
            elif t == 2:
                p = rng.choice(gens.VERSION_PAYLOADS)
            else:
                p = self.payload()
            return f"{n};255;3;{rng.randint(0, 1)};{t};{p}"
        n = self.node(known=rng.random() < 0.8)
        return f"{n};255;4;{rng.choice([0, 0, 0, 1])};{rng.choice([0, 1, 2, 3, 4, 5, 5, 6, -1, 99])};{self.payload()}"

    def tx_op(self) -> list:
        rng = self.rng
        n = self.node(known=rng.random() < 0.9)
        c = self.child(n, known=True)
        t = rng.choice(VTYPES[:4])
        return ["tx", [n, c, 1, rng.randint(0, 1), t, self.unique()], rng.random() < 0.85]

    def history(self, length: int, *, tx_rate: float = 0.0, version_reports: float = 0.0) -> list[list]:
        steps: list[list] = []
        rng = self.rng
        for _ in range(length):
            roll = rng.random()
            if roll < tx_rate:
                steps.append(self.tx_op())
            elif roll < tx_rate + version_reports:
                v = rng.choice(gens.VERSION_PAYLOADS)
                steps.append(["rx", rng.choice([f"0;255;3;0;2;{v}", f"0;255;0;0;18;{v}"]) + "\n"])
            else:
                steps.append(["rx", self.rx_line() + rng.choice(["\n", "\n", "\r\n", ""])])
        return steps


# --------------------------------------------------------------------------------------------------
# scale and full-table workloads (shared by C03, C04, C10): nothing in the statements is limited to a
# handful of nodes or to a few type numbers

def wide_unknown_nodes(n: int, *, with_presentations: bool = True) -> list[list]:
    """n distinct unknown nodes each send a rejected message; each again; half present themselves; each again."""
    ids = [i for i in range(1, 255)][:n]
    steps = [["rx", f"{i};0;1;0;0;1\n"] for i in ids]
    steps += [["rx", f"{i};255;3;0;0;50\n"] for i in ids]
    if with_presentations:
        steps += [["rx", f"{i};255;0;0;17;2.0\n"] for i in ids[::2]]
        steps += [["rx", f"{i};3;2;0;0;\n"] for i in ids]
    return steps


def type_table_sweep(child_types: list[int], value_types: list[int], *, node: int = 1) -> list[list]:
    """Present a child of every type, report every value type twice, request every value, re-present."""
    steps: list[list] = [["rx", f"{node};255;0;0;17;2.0\n"]]
    for ct in child_types:
        steps.append(["rx", f"{node};{ct % 255};0;0;{ct};child type {ct}\n"])
    # nothing is stored yet: a value request of any type on a child of any type is answered with nothing
    for ct in child_types:
        for vt in value_types:
            steps.append(["rx", f"{node};{ct % 255};2;{(ct + vt) % 2};{vt};\n"])
    for ct in child_types:
        for vt in value_types:
            steps.append(["rx", f"{node};{ct % 255};1;0;{vt};a{vt}\n"])
    for ct in child_types:
        for vt in value_types[::3]:
            steps.append(["rx", f"{node};{ct % 255};1;0;{vt};b{vt}\n"])
            steps.append(["rx", f"{node};{ct % 255};2;0;{vt};\n"])
    # numeric values: zeros on the even types and levels on the odd ones, then the other way round - every type is requested
    # while its neighbours hold 0 / 1 / a level (a reply must carry ITS type's stored value whatever else the child holds)
    for parity in (0, 1):
        for ct in child_types:
            for vt in value_types:
                steps.append(["rx", f"{node};{ct % 255};1;0;{vt};{'0' if vt % 2 == parity else str(60 + vt)}\n"])
        for ct in child_types:
            for vt in value_types:
                steps.append(["rx", f"{node};{ct % 255};2;0;{vt};\n"])
    return steps


def presentation_type_sweep(types: list[int]) -> list[list]:
    """Every presentation type number as node presentation and as child presentation, on known and unknown nodes."""
    steps: list[list] = []
    for t in types:
        steps.append(["rx", f"1;255;0;0;17;2.0\n"])
        steps.append(["rx", f"1;4;0;0;6;keep\n"])
        steps.append(["rx", f"1;4;1;0;2;kept value\n"])
        steps.append(["rx", f"1;3;0;0;{t};described {t}\n"])   # child presentation of type t on a known node
        steps.append(["rx", f"1;4;2;0;2;\n"])                  # the other child and its value are still there
        steps.append(["rx", f"9;3;0;0;{t};unknown node\n"])     # child presentation from an unknown node
        steps.append(["rx", f"2;255;0;0;{t};2.1\n"])           # node presentation of type t
    return steps


def rich_history(rng: random.Random, version: str | None, length: int) -> list[list]:
    """Everything an application and a network can do, mixed: received lines, buffered / unbuffered sends of every
    command, reboot and sleeping flags, config flips, restored nodes, reconnects, version reports."""
    gen = HistoryGen(rng, version)
    gen.wide = rng.random() < 0.3
    steps: list[list] = []
    for node in (1, 2):
        gen.known[node] = {0, 1}
        steps.append(["restore", node, {"type": rng.choice([17, 17, 18, 0]), "version": "2.0", "sleeping": rng.random() < 0.5,
                                        "children": {"0": [3, "c0", {"2": "1"} if rng.random() < 0.5 else {}], "1": [3, "c1", {}]}}])
    proto = spec.pmap(version) or "1.4"
    for _ in range(length):
        roll = rng.random()
        wake = 32 if proto == "2.2" else 22
        if roll < 0.30:
            steps.append(["rx", gen.rx_line() + "\n"])
        elif roll < 0.45:
            n, c, t = rng.choice([1, 2]), rng.choice([0, 1]), rng.choice([2, 3])
            steps.append(["rx", f"{n};{c};{rng.choice([1, 1, 2])};{rng.choice([0, 0, 1])};{t};{rng.choice(['0', '1', 'on'])}\n"])
        elif roll < 0.60:
            n, c, t = rng.choice([1, 2, 7]), rng.choice([0, 1]), rng.choice([2, 3])
            steps.append(["tx", [n, c, 1, rng.randint(0, 1), t, rng.choice(["0", "1", "on", gen.unique()])], rng.random() < 0.85])
        elif roll < 0.66:
            n = rng.choice([1, 2, 7])
            steps.append(["tx", [n, 255, 3, rng.choice([0, 0, 1]), rng.choice([13, 18, 19, 6, 1, 24]), ""], rng.random() < 0.7])
        elif roll < 0.70:
            steps.append(["tx", [rng.choice([1, 2]), rng.choice([0, 1]), 2, rng.choice([0, 1]), rng.choice([2, 3]), ""], True])
        elif roll < 0.78:
            steps.append(["flag", rng.choice([1, 2]), "reboot", rng.random() < 0.7])
        elif roll < 0.86 and spec.is2x(proto):
            steps.append(["rx", f"{rng.choice([1, 2])};255;3;{rng.choice([0, 0, 0, 1])};{wake};{rng.randint(0, 9)}\n"])
        elif roll < 0.90:
            steps.append(["config", "metric", rng.random() < 0.5])
        elif roll < 0.93:
            steps.append(["rx", f"{rng.choice([1, 2, 255])};255;3;{rng.choice([0, 0, 1])};{rng.choice([6, 6, 1, 3])};\n"])
        elif roll < 0.935:
            steps.append(["clock", rng.choice([1, 61, 301, 601, 3601, 7201, 86401, 90000])])  # time passes
        elif roll < 0.94:
            steps.append(["forget", rng.choice([1, 2, 7])])  # the application removes a node from the registry
        elif roll < 0.942:
            steps.append(["rebind-children", rng.choice([1, 2])])
        elif roll < 0.944:
            steps.append(["rebind"])
        elif roll < 0.95:
            steps.append(rng.choice([["reenter", "transport-error"], ["reenter"], ["reenter", "connect-refused"],
                                     ["reenter", "connect-cancelled"]]))
        elif roll < 0.97:
            text = rng.choice(["2.0.0", "2.1.1", "2.2.0", "1.5.0"])
            steps.append(["rx", f"0;255;3;0;2;{text}\n"])
            proto = spec.pmap(text) or proto
        else:
            steps.append(["rx", f"{rng.choice([1, 2])};255;0;0;17;2.0\n"])
    return steps


REPLY_FAULTS = [[13], [6], [2], [13, 2], [20], [1], [6, 1, 13]]


def with_reply_faults(rng: random.Random, case: dict) -> dict:
    """A third of the rich cases get write faults on library-initiated replies (reboot, config, time, version query,
    discover) - every 1st / 2nd / 3rd such write fails with one of the TransportError classes."""
    if rng.random() < 0.35:
        case["fail_reply_types"] = rng.choice(REPLY_FAULTS)
        case["fail_reply_every"] = rng.choice([1, 1, 2, 3])
        case["fault_class"] = rng.choice(["TransportFailedError", "TransportError", "HarnessTransportError"])
    return case


def dictionary_type_sweep(version: str | None, candidates: list[str], value_types: list[int], *, node: int = 1) -> list[list]:
    """Every dictionary payload as the value of every value type: reported, then requested back (the registry must hold,
    and the reply must carry, exactly the text that was reported)."""
    steps: list[list] = [["rx", f"{node};255;0;0;17;2.0\n"], ["rx", f"{node};0;0;0;13;power\n"], ["rx", f"{node};1;0;0;29;hvac\n"]]
    for index, payload in enumerate(candidates):
        if ";" in payload:
            continue
        child = index % 2
        for vt in value_types:
            steps.append(["rx", f"{node};{child};1;0;{vt};{payload}\n"])
            steps.append(["rx", f"{node};{child};2;0;{vt};\n"])
    return steps


def with_clock_jumps(steps: list[list], seconds_list: list[float]) -> list[list]:
    """The same history with a jump of every clock before each received line / send (cycling through seconds_list)."""
    out: list[list] = []
    index = 0
    for op in steps:
        if op[0] in ("rx", "tx") and out:
            out.append(["clock", seconds_list[index % len(seconds_list)]])
            index += 1
        out.append(op)
    return out
