"""Director: controlled interleavings of one flushing listener with concurrent send() tasks.

Every suspension point on the send / flush paths is a Transport.write call, so a ScriptedTransport
in gate mode makes every interleaving reachable by choosing (a) which pending write completes next
and (b) when each sender task starts.  Exploration is stateless DFS over choice sequences: every
path re-executes from a fresh Gateway.  Delays are only injected at suspension points the program
really has.
"""

from __future__ import annotations

import asyncio
from typing import Any

from .harness import ScriptEnd, Stepper, exc_info, is_library_error, new_gateway
from .lockstep import split_line

QUIET_ROUNDS = 3


class Outcome:
    def __init__(self) -> None:
        self.choices: list[int] = []
        self.branching: list[int] = []
        self.labels: list[str] = []
        self.problems: list[tuple[str, str]] = []  # (key, what)
        self.listener_errors: list[dict] = []
        self.sender_errors: list[dict] = []
        self.max_pending = 0
        self.deadlock = False
        self.failed_writes = 0
        self.signature: tuple = ()
        self.sent: dict[tuple, list[str]] = {}
        self.written: dict[tuple, list[str]] = {}


async def run_schedule(config: dict, prefix: list[int], rng=None) -> Outcome:
    """Execute one schedule.

    config = {"version": "2.0"|"2.1"|"2.2", "parked": [[n,c,t], ...], "senders": [[[n,c,t,buffered], ...], ...],
              "wakes": [n, ...], "awake": [n, ...]}
    """
    from aiomysensors.model.message import Message
    from aiomysensors.model.node import Child, Node

    out = Outcome()
    version = config["version"]
    wake_type = 32 if version == "2.2" else 22
    gateway, transport = new_gateway(version)
    nodes = {k[0] for k in config["parked"]} | {s[0] for sender in config["senders"] for s in sender} | set(config["wakes"])
    for n in nodes:
        children = {c: Child(c, 3) for c in range(4)}
        gateway.nodes[n] = Node(n, 17, "2.0", children=children, sleeping=n not in config.get("awake", ()))
    stepper = Stepper(gateway, transport)
    counter = {"n": 0}
    sent_log: list[tuple[tuple, str]] = []

    def value(tag: str) -> str:
        counter["n"] += 1
        return f"{tag}:{counter['n']}"

    # pre-park (no writes happen: nodes are sleeping)
    # "reuse_objects": the application keeps ONE Message object per actuator, changes its payload and sends it again
    reuse = bool(config.get("reuse_objects"))
    objects: dict[tuple, Message] = {}
    for n, c, t in config["parked"]:
        val = value("p")
        objects[(n, c, t)] = Message(n, c, 1, 0, t, val)
        await gateway.send(objects[(n, c, t)])
        sent_log.append(((n, c, t), val))
    if transport.writes:
        out.problems.append(("pre-park-wrote", f"buffered set for a sleeping node was written at send time: {transport.writes}"))
    transport.gate = True
    transport.fault_class = config.get("fault_class", "TransportFailedError")

    start_events = [asyncio.Event() for _ in config["senders"]]
    started = [False] * len(config["senders"])

    async def sender(index: int, sends: list) -> None:
        await start_events[index].wait()
        for n, c, t, buffered in sends:
            val = value(f"s{index}")
            # logged at call time: a send that parks has no suspension point (call = completion) and a send
            # that writes hands its line to the transport before it first suspends (call order = write order)
            entry = ((n, c, t), val)
            sent_log.append(entry)
            if reuse and (n, c, t) in objects:
                message = objects[(n, c, t)]
                message.payload = val
            else:
                message = objects[(n, c, t)] = Message(n, c, 1, 0, t, val)
            try:
                await gateway.send(message, message_buffer=buffered)
            except Exception as exc:  # noqa: BLE001
                sent_log.remove(entry)
                out.sender_errors.append(exc_info(exc))
                return

    wake_events = [asyncio.Event() for _ in config["wakes"]]
    wake_started = [False] * len(config["wakes"])
    gated_wakes = bool(config.get("gated_wakes"))

    async def listener() -> None:
        for j, n in enumerate(config["wakes"]):
            if gated_wakes:
                await wake_events[j].wait()
            kind, exc = await stepper.rx(f"{n};255;3;0;{config.get('listener_type', wake_type)};1\n")
            if kind == "error":
                info = exc_info(exc)
                info["text"] = str(exc)[:120]
                out.listener_errors.append(info)

    tasks = [asyncio.ensure_future(listener())] + [asyncio.ensure_future(sender(i, s))
                                                   for i, s in enumerate(config["senders"])]

    async def quiesce() -> None:
        quiet = 0
        last = None
        while quiet < QUIET_ROUNDS:
            await asyncio.sleep(0)
            state = (len(transport.pending), transport.attempts, tuple(t.done() for t in tasks), len(sent_log))
            quiet = quiet + 1 if state == last else 0
            last = state

    step = 0
    faults_used = 0
    while True:
        await quiesce()
        out.max_pending = max(out.max_pending, len(transport.pending))
        enabled: list[tuple[str, int]] = [("write", i) for i in range(len(transport.pending))]
        enabled += [("start", i) for i, flag in enumerate(started) if not flag]
        if gated_wakes:
            nxt = next((j for j, flag in enumerate(wake_started) if not flag), None)
            if nxt is not None:
                enabled.append(("wake", nxt))
        if faults_used < int(config.get("max_faults") or 0):
            enabled += [("fail", i) for i in range(len(transport.pending))]
        if not enabled:
            if all(t.done() for t in tasks):
                break
            # tasks that merely yield (sleep(0) chains, lock hand-offs) are not deadlocked: spin generously
            for _ in range(300):
                await asyncio.sleep(0)
                if transport.pending or all(t.done() for t in tasks):
                    break
            if transport.pending:
                continue
            break
        if step < len(prefix):
            choice = prefix[step] % len(enabled)
        elif rng is not None:
            choice = rng.randrange(len(enabled))
        else:
            choice = 0
        out.choices.append(choice)
        out.branching.append(len(enabled))
        kind, index = enabled[choice]
        if kind == "write":
            future, line, attempt = transport.pending.pop(index)
            out.labels.append(f"w{attempt}")
            future.set_result(False)
        elif kind == "wake":
            wake_started[index] = True
            out.labels.append(f"K{index}")
            wake_events[index].set()
        elif kind == "fail":
            future, line, attempt = transport.pending.pop(index)
            out.labels.append(f"F{attempt}")
            faults_used += 1
            future.set_result(True)
        else:
            started[index] = True
            out.labels.append(f"S{index}")
            start_events[index].set()
        step += 1
        if step > int(config.get("max_steps") or 400):
            out.problems.append(("schedule-too-long", f"more than {int(config.get('max_steps') or 400)} decisions"))
            break
    if not all(t.done() for t in tasks):
        out.deadlock = True
        out.problems.append(("deadlock", "no write pending and no sender left to start, but tasks are not finished: "
                             + ", ".join(f"task{i}" for i, t in enumerate(tasks) if not t.done())))
        for t in tasks:
            t.cancel()
        await asyncio.gather(*tasks, return_exceptions=True)
    else:
        for t in tasks:
            if t.exception() is not None:
                out.problems.append(("harness-task-exception", repr(t.exception())))
    # quiescence reached: one more uncontended wake per node
    transport.gate = False
    if not out.deadlock:
        for _round in range(2 if config.get("max_faults") else 1):
            for n in sorted(nodes):
                kind, exc = await stepper.rx(f"{n};255;3;0;{wake_type};1\n")
                if kind == "error":
                    info = exc_info(exc)
                    info["text"] = str(exc)[:120]
                    info["final_wake"] = True
                    out.listener_errors.append(info)
    await stepper.close()

    # per-key history check over unique values; write order = order of Transport.write calls
    for key, val in sent_log:
        out.sent.setdefault(key, []).append(val)
    fault_mode = bool(config.get("max_faults"))
    out.failed_writes = sum(1 for e in transport.events if e[0] == "write-fail")
    for kind, _attempt, line in transport.events:
        # without faults: order of Transport.write CALLS; with injected faults: successful writes in completion order
        if kind != ("write-ok" if fault_mode else "write-call"):
            continue
        parsed = split_line(line)
        if parsed and parsed[2] == 1:
            out.written.setdefault((parsed[0], parsed[1], parsed[4]), []).append(parsed[5])
    if not out.deadlock:
        for key in sorted(set(out.sent) | set(out.written)):
            sent = out.sent.get(key, [])
            written = out.written.get(key, [])
            for val in written:
                if val not in sent:
                    out.problems.append(("written-value-never-sent", f"key {key}: wrote {val!r}, sent {sent}"))
                elif written.count(val) > sent.count(val):
                    out.problems.append(("value-written-twice", f"key {key}: {val!r} written {written.count(val)}x: {written}"))
            if sent and (not written or written[-1] != sent[-1]):
                out.problems.append(("lost-update", f"key {key}: last sent {sent[-1]!r} but writes were {written} "
                                                    f"(sent in order {sent})"))
    out.signature = (tuple(sorted((k, tuple(v)) for k, v in out.written.items())), out.deadlock,
                     tuple(e["class"] for e in out.listener_errors))
    return out


def explore(config: dict, runner, limit: int | None = None):
    """Stateless DFS over all choice sequences; yields (prefix, Outcome)."""
    stack: list[list[int]] = [[]]
    done = 0
    while stack:
        prefix = stack.pop()
        outcome = runner(config, prefix)
        done += 1
        yield prefix, outcome
        if limit is not None and done >= limit:
            return
        for i in range(len(prefix), len(outcome.choices)):
            for alt in range(1, outcome.branching[i]):
                stack.append(outcome.choices[:i] + [alt])
