"""File-system event recorder (strace) and crash-state replayer (C15, C16).

`record()` runs a child under  strace -f -y -xx  and returns the implementation-agnostic sequence
of successful file-system operations touching a scratch directory.  `crash_states()` replays every
prefix of that sequence (splitting each write into torn prefixes) with a small interpreter over an
inode/directory model and yields every directory content a `kill -9` could have left behind.
Crash model: process death (kernel state survives), not power loss.
"""

from __future__ import annotations

import os
import re
import shutil
import subprocess
from dataclasses import dataclass, field

SYSCALLS = ("open,openat,creat,write,pwrite64,writev,ftruncate,truncate,rename,renameat,renameat2,link,linkat,"
            "unlink,unlinkat,close,fsync,fdatasync,lseek,dup,dup2,dup3,fcntl")


def strace_available() -> bool:
    if not shutil.which("strace"):
        return False
    try:
        proc = subprocess.run(["strace", "-f", "-o", "/dev/null", "-e", "trace=write", "/bin/true"],
                              capture_output=True, timeout=20)
    except (OSError, subprocess.TimeoutExpired):
        return False
    return proc.returncode == 0


def unhex(text: str) -> bytes:
    return bytes(int(x, 16) for x in re.findall(r"\\x([0-9a-f]{2})", text))


@dataclass
class Op:
    kind: str  # open | write | pwrite | truncate | ftruncate | rename | unlink | link | close | lseek | sync
    pid: int = 0
    fd: int = -1
    path: str = ""
    path2: str = ""
    flags: str = ""
    data: bytes = b""
    offset: int = 0
    whence: str = ""
    length: int = 0
    raw: str = ""


LINE = re.compile(r"^(\d+)\s+(\w+)\((.*)\)\s+=\s+(-?\d+)(<[^>]*>)?\s*$", re.S)
FDARG = re.compile(r"^(\d+)<([^>]*)>")


def parse(log_text: str, root: str) -> list[Op]:
    """Keep operations on paths inside `root`."""
    ops: list[Op] = []
    root_b = root.rstrip("/") + "/"
    # files created elsewhere (e.g. a temp file in another directory) and later renamed / linked into root
    extra: set[str] = set()
    for line in log_text.splitlines():
        if "rename" in line or "link" in line:
            match = LINE.match(line)
            if match and match.group(2) in ("rename", "renameat", "renameat2", "link", "linkat"):
                names = [unhex(x).decode("utf-8", "surrogateescape")
                         for x in re.findall(r'"((?:\\x[0-9a-f]{2})*)"', match.group(3))]
                if len(names) >= 2 and os.path.normpath(names[1]).startswith(root_b) and names[0].startswith("/"):
                    extra.add(os.path.normpath(names[0]))

    def inside(path: str) -> bool:
        return path.startswith(root_b) or path == root.rstrip("/") or path in extra

    for line in log_text.splitlines():
        match = LINE.match(line)
        if not match:
            continue
        pid, name, args, ret, retpath = int(match.group(1)), match.group(2), match.group(3), int(match.group(4)), match.group(5)
        strings = [unhex(s).decode("utf-8", "surrogateescape") for s in re.findall(r'"((?:\\x[0-9a-f]{2})*)"', args)]
        fdm = FDARG.match(args)
        fd_path = unhex(fdm.group(2)).decode("utf-8", "surrogateescape") if fdm else ""
        fd = int(fdm.group(1)) if fdm else -1

        def absolute(p: str) -> str:
            if p.startswith("/"):
                return os.path.normpath(p)
            cwd = re.search(r"AT_FDCWD<([^>]*)>", args)
            base = unhex(cwd.group(1)).decode() if cwd else "/"
            return os.path.normpath(os.path.join(base, p))

        if name in ("open", "openat", "creat"):
            path = unhex(retpath[1:-1]).decode("utf-8", "surrogateescape") if retpath else absolute(strings[0])
            if not inside(path):
                continue
            flags = args.split(",")[2 if name == "openat" else 1].strip() if name != "creat" else "O_WRONLY|O_CREAT|O_TRUNC"
            ops.append(Op("open", pid, ret, path, flags=flags, raw=line[:200]))
        elif name in ("write", "pwrite64", "writev"):
            if not inside(fd_path):
                continue
            data = b"".join(unhex(s) for s in re.findall(r'"((?:\\x[0-9a-f]{2})*)"', args))[:ret]
            if name == "pwrite64":
                offset = int(args.rsplit(",", 1)[1])
                ops.append(Op("pwrite", pid, fd, fd_path, data=data, offset=offset, raw=line[:120]))
            else:
                ops.append(Op("write", pid, fd, fd_path, data=data, raw=line[:120]))
        elif name == "ftruncate":
            if inside(fd_path):
                ops.append(Op("ftruncate", pid, fd, fd_path, length=int(args.rsplit(",", 1)[1]), raw=line[:200]))
        elif name == "truncate":
            path = absolute(strings[0])
            if inside(path):
                ops.append(Op("truncate", pid, path=path, length=int(args.rsplit(",", 1)[1]), raw=line[:200]))
        elif name in ("rename", "renameat", "renameat2"):
            src, dst = absolute(strings[0]), absolute(strings[1])
            if inside(src) or inside(dst):
                ops.append(Op("rename", pid, path=src, path2=dst, raw=line[:300]))
        elif name in ("link", "linkat"):
            src, dst = absolute(strings[0]), absolute(strings[1])
            if inside(dst):
                ops.append(Op("link", pid, path=src, path2=dst, raw=line[:300]))
        elif name in ("unlink", "unlinkat"):
            path = absolute(strings[0])
            if inside(path):
                ops.append(Op("unlink", pid, path=path, raw=line[:200]))
        elif name == "close":
            if inside(fd_path):
                ops.append(Op("close", pid, fd, fd_path, raw=line[:200]))
        elif name == "lseek":
            if inside(fd_path):
                parts = args.rsplit(",", 2)
                ops.append(Op("lseek", pid, fd, fd_path, offset=ret, whence=parts[2].strip(), raw=line[:200]))
        elif name in ("fsync", "fdatasync"):
            if inside(fd_path):
                ops.append(Op("sync", pid, fd, fd_path, raw=line[:200]))
        elif name in ("dup", "dup2", "dup3") or (name == "fcntl" and "F_DUPFD" in args):
            if inside(fd_path):
                ops.append(Op("dup", pid, fd, fd_path, offset=ret, raw=line[:200]))
    return ops


def record(argv: list[str], root: str, *, env: dict | None = None, timeout: int = 120) -> tuple[list[Op], int, str]:
    """Run argv under strace; return (ops inside root, child exit status, raw log tail)."""
    log_path = os.path.join(os.path.dirname(root.rstrip("/")), f"strace-{os.getpid()}-{abs(hash(tuple(argv))) % 10**8}.log")
    cmd = ["strace", "-f", "-y", "-xx", "-s", "100000000", "-o", log_path, "-e", f"trace={SYSCALLS}",
           "-e", "status=successful", *argv]
    proc = subprocess.run(cmd, env=env, capture_output=True, text=True, timeout=timeout)
    try:
        with open(log_path, encoding="utf-8", errors="surrogateescape") as fil:
            text = fil.read()
    finally:
        if os.path.exists(log_path):
            os.unlink(log_path)
    return parse(text, root), proc.returncode, (proc.stdout + proc.stderr)[-2000:]


@dataclass
class Inode:
    data: bytearray = field(default_factory=bytearray)


class FsModel:
    """Directory = name -> inode; fd table = (pid-agnostic) fd -> [inode, offset, append]."""

    def __init__(self, files: dict[str, bytes]) -> None:
        self.dir: dict[str, Inode] = {p: Inode(bytearray(d)) for p, d in files.items()}
        self.fds: dict[int, list] = {}

    def content(self) -> dict[str, bytes]:
        return {p: bytes(i.data) for p, i in self.dir.items()}

    def apply(self, op: Op, *, torn: int | None = None) -> None:
        if op.kind == "open":
            inode = self.dir.get(op.path)
            if inode is None:
                if "O_CREAT" not in op.flags:
                    inode = Inode()  # opened something that pre-existed but was not in the snapshot (e.g. directory)
                else:
                    inode = Inode()
                    self.dir[op.path] = inode
            if "O_TRUNC" in op.flags:
                del inode.data[:]
            self.fds[op.fd] = [inode, 0, "O_APPEND" in op.flags]
        elif op.kind in ("write", "pwrite"):
            entry = self.fds.get(op.fd)
            if entry is None:
                inode = self.dir.setdefault(op.path, Inode())
                entry = self.fds[op.fd] = [inode, len(inode.data), False]
            inode, offset, append = entry
            data = op.data if torn is None else op.data[:torn]
            if op.kind == "pwrite":
                offset = op.offset
            elif append:
                offset = len(inode.data)
            if len(inode.data) < offset:
                inode.data.extend(b"\0" * (offset - len(inode.data)))
            inode.data[offset:offset + len(data)] = data
            if op.kind == "write":
                entry[1] = offset + len(data)
        elif op.kind == "ftruncate":
            entry = self.fds.get(op.fd)
            inode = entry[0] if entry else self.dir.setdefault(op.path, Inode())
            self._truncate(inode, op.length)
        elif op.kind == "truncate":
            self._truncate(self.dir.setdefault(op.path, Inode()), op.length)
        elif op.kind == "rename":
            inode = self.dir.pop(op.path, None)
            if inode is not None:
                self.dir[op.path2] = inode
        elif op.kind == "link":
            if op.path in self.dir:
                self.dir[op.path2] = self.dir[op.path]
        elif op.kind == "unlink":
            self.dir.pop(op.path, None)
        elif op.kind == "close":
            self.fds.pop(op.fd, None)
        elif op.kind == "lseek":
            entry = self.fds.get(op.fd)
            if entry is not None:
                entry[1] = op.offset  # strace reports the resulting offset
        elif op.kind == "dup":
            if op.fd in self.fds:
                self.fds[op.offset] = self.fds[op.fd]

    @staticmethod
    def _truncate(inode: Inode, length: int) -> None:
        if len(inode.data) > length:
            del inode.data[length:]
        else:
            inode.data.extend(b"\0" * (length - len(inode.data)))


def torn_points(length: int) -> list[int]:
    points = {1, length - 1, length // 2}
    points.update(range(4096, length, 4096))
    points.update(range(64, min(length, 1024), 64))
    return sorted(p for p in points if 0 < p < length)


def crash_states(pre: dict[str, bytes], ops: list[Op]):
    """Yield (label, index, torn, directory content) for every crash point."""
    model = FsModel(pre)
    yield "before-first-op", -1, None, model.content()
    for index, op in enumerate(ops):
        if op.kind in ("write", "pwrite") and len(op.data) > 1:
            for point in torn_points(len(op.data)):
                shadow = FsModel(model.content())
                # rebuild fd table on the shadow by path identity
                for fd, (inode, offset, append) in model.fds.items():
                    for path, candidate in model.dir.items():
                        if candidate is inode:
                            shadow.fds[fd] = [shadow.dir[path], offset, append]
                            break
                    else:
                        shadow.fds[fd] = [Inode(bytearray(inode.data)), offset, append]
                shadow.apply(op, torn=point)
                yield f"torn-{op.kind}", index, point, shadow.content()
        model.apply(op)
        yield f"after-{op.kind}", index, None, model.content()
