"""Harness-controlled clocks for the non-loop time sources (time.monotonic, time.time, perf_counter, localtime ...).

The virtual event loop (vf.vloop) only moves asyncio's clock.  A library that ages its state by `time.monotonic()` or the
wall clock (retry after 5 minutes, reservations that expire after an hour, caches with a TTL) does not notice.  `advance()`
moves ALL of Python's clocks forward together: the functions of the `time` module are wrapped once per process (and names
that aiomysensors modules imported directly are re-bound), the offset only ever grows, so every clock stays monotonic.
"""

from __future__ import annotations

import sys
import time

_STATE = {"offset": 0.0, "installed": False}
_REAL = {name: getattr(time, name) for name in ("monotonic", "monotonic_ns", "perf_counter", "perf_counter_ns", "time", "time_ns",
                                                "localtime", "gmtime", "ctime")}


def install() -> None:
    if _STATE["installed"]:
        return
    _STATE["installed"] = True

    def monotonic() -> float:
        return _REAL["monotonic"]() + _STATE["offset"]

    def monotonic_ns() -> int:
        return _REAL["monotonic_ns"]() + int(_STATE["offset"] * 1e9)

    def perf_counter() -> float:
        return _REAL["perf_counter"]() + _STATE["offset"]

    def perf_counter_ns() -> int:
        return _REAL["perf_counter_ns"]() + int(_STATE["offset"] * 1e9)

    def now() -> float:
        return _REAL["time"]() + _STATE["offset"]

    def now_ns() -> int:
        return _REAL["time_ns"]() + int(_STATE["offset"] * 1e9)

    def localtime(secs=None):
        return _REAL["localtime"](now() if secs is None else secs)

    def gmtime(secs=None):
        return _REAL["gmtime"](now() if secs is None else secs)

    def ctime(secs=None):
        return _REAL["ctime"](now() if secs is None else secs)

    wrappers = {"monotonic": monotonic, "monotonic_ns": monotonic_ns, "perf_counter": perf_counter,
                "perf_counter_ns": perf_counter_ns, "time": now, "time_ns": now_ns, "localtime": localtime, "gmtime": gmtime,
                "ctime": ctime}
    for name, func in wrappers.items():
        setattr(time, name, func)
    # names imported directly (`from time import monotonic`) by the code under test
    for module_name, module in list(sys.modules.items()):
        if not module_name.startswith("aiomysensors") or module is None:
            continue
        for attr, value in list(vars(module).items()):
            for name, real in _REAL.items():
                if value is real:
                    setattr(module, attr, wrappers[name])


def advance(seconds: float) -> None:
    """All clocks jump forward by `seconds` (never backwards)."""
    install()
    if seconds > 0:
        _STATE["offset"] += float(seconds)


def offset() -> float:
    return _STATE["offset"]
