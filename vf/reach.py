"""Reach monitor: sys.monitoring PY_START counters on the functions a property is anchored in.

Proves that the mechanism a property names was actually executed by the workload.
Functions that cannot be resolved (refactored away) are skipped silently; the check is
inconclusive only if *none* of its anchors was reached.
"""

from __future__ import annotations

import importlib
import sys
from collections import Counter

TOOL = sys.monitoring.PROFILER_ID


class Reach:
    def __init__(self, anchors: list[str]) -> None:
        self.anchors = anchors
        self.counts: Counter[str] = Counter()
        self._codes: dict[object, str] = {}
        self.unresolved: list[str] = []

    def _resolve(self, dotted: str):
        module_name, _, qual = dotted.partition(":")
        try:
            obj = importlib.import_module(module_name)
            for part in qual.split("."):
                obj = obj.__dict__[part] if isinstance(obj, type) else getattr(obj, part)
        except Exception:  # noqa: BLE001
            return None
        seen = 0
        while seen < 10:
            seen += 1
            if isinstance(obj, (classmethod, staticmethod)):
                obj = obj.__func__
            elif isinstance(obj, property):
                obj = obj.fget
            elif hasattr(obj, "__wrapped__") and not hasattr(obj, "__code__"):
                obj = obj.__wrapped__  # e.g. functools.cache wrapper (C object)
            else:
                break
        return getattr(obj, "__code__", None)

    def __enter__(self) -> "Reach":
        try:
            sys.monitoring.use_tool_id(TOOL, "vf-reach")
        except ValueError:
            self.unresolved = list(self.anchors)
            return self
        for dotted in self.anchors:
            code = self._resolve(dotted)
            if code is None:
                self.unresolved.append(dotted)
                continue
            self._codes[code] = dotted
            self.counts[dotted] += 0
            sys.monitoring.set_local_events(TOOL, code, sys.monitoring.events.PY_START)

        def on_start(code, _offset):
            name = self._codes.get(code)
            if name is not None:
                self.counts[name] += 1

        sys.monitoring.register_callback(TOOL, sys.monitoring.events.PY_START, on_start)
        return self

    def __exit__(self, *exc) -> None:
        try:
            for code in self._codes:
                sys.monitoring.set_local_events(TOOL, code, 0)
            sys.monitoring.register_callback(TOOL, sys.monitoring.events.PY_START, None)
            sys.monitoring.free_tool_id(TOOL)
        except ValueError:
            pass

    def into(self, ctx) -> None:
        for name, count in self.counts.items():
            ctx.reach[name] += count
        for name in self.unresolved:
            ctx.note(f"reach anchor not resolvable (skipped): {name}")
        if self._codes:
            ctx.clauses["reach:anchors-hit"] += sum(1 for c in self.counts.values() if c)
            ctx.require("reach:anchors-hit", 1)
