"""Shared runner for the lockstep-model checks: executes history cases, projects the mismatches
onto the property being checked, shrinks the first witness per mechanism key."""

from __future__ import annotations

from collections import Counter
from typing import Iterable

from .harness import run as arun
from .lockstep import run_history


def execute(case: dict, stats: Counter | None = None):
    return arun(run_history(case, stats))


def shrink(case: dict, prop: str, key: str, budget: int = 200) -> dict:
    """Greedy step removal while the same (prop, key) mismatch still reproduces."""
    steps = list(case["steps"])
    tries = 0
    changed = True
    while changed and tries < budget:
        changed = False
        for i in range(len(steps) - 1, -1, -1):
            if tries >= budget:
                break
            tries += 1
            candidate = dict(case, steps=steps[:i] + steps[i + 1:])
            try:
                mismatches, _ = execute(candidate)
            except Exception:  # noqa: BLE001
                continue
            if any(m.prop == prop and m.key == key for m in mismatches):
                steps = candidate["steps"]
                changed = True
    return dict(case, steps=steps)


def is_nontrivial(case: dict, ls) -> bool:
    """>= 2 steps and at least one step that is not a plain pass-through."""
    if len(case["steps"]) < 2:
        return False
    return any(t["outcome"] != "yield" or t["writes"] for t in ls.trace) or bool(ls.model.nodes)


def run_cases(ctx, cases: Iterable[dict], *, sample_every: int = 1) -> None:
    stats: Counter = Counter()
    seen_keys: set[str] = set()
    for case in cases:
        try:
            mismatches, ls = execute(case, stats)
        except Exception as exc:  # noqa: BLE001  harness failure, not a verdict
            ctx.inconclusive.append(f"harness error on case: {type(exc).__name__}: {exc!s:.300}")
            raise
        canon = (case.get("version"), case.get("metric", True), tuple(map(repr, case["steps"])),
                 tuple(case.get("faults") or ()), tuple(case.get("fail19") or ()), case.get("tz"),
                 tuple(case.get("fail_reply_types") or ()), case.get("fail_reply_every"), case.get("fault_class"),
                 repr(sorted((case.get("config_extra") or {}).items())), bool(case.get("neighbour")),
                 repr(case.get("session_file")))
        ctx.case(canon, nontrivial=is_nontrivial(case, ls), sample=case if len(case["steps"]) <= 12 else
                 dict(case, steps=case["steps"][:12] + [["...", len(case["steps"]) - 12, "more steps"]]))
        for m in mismatches:
            if m.prop != ctx.pid:
                ctx.obs(f"other-property-mismatch:{m.prop}:{m.key}")
                continue
            if case.get("only_keys") is not None and m.key not in case["only_keys"]:
                ctx.obs(f"not-judged-under-unknown-option:{m.key}")
                continue
            witness = case
            if m.key not in seen_keys:
                seen_keys.add(m.key)
                witness = shrink(case, m.prop, m.key)
            ctx.violation(m.key, f"step {m.step}: {m.what}", witness)
    for name, count in stats.items():
        if name.startswith("clause:") or name.startswith("inv:"):
            ctx.clause(name.split(":", 1)[1], count)
        else:
            ctx.obs(name, count)


def replay_case(ctx, case: dict) -> None:
    run_cases(ctx, [case])
