"""Reference controller model: a sequential, deterministic, executable reading of the property
statements C04-C07, C10, C11 (written from the statements and the MySensors serial API, not
from the code).  Where the statements leave behaviour open the model is three-valued and
*follows the implementation* (the observed outcome is passed in as a hint); those points are
listed in DESIGN.md 2.3.

The model predicts, for one received line or one send call:
  * the outcome class (yield / which error, naming which id),
  * the lines written to the transport, tagged by the property that owns them,
  * the registry, the reported version and the active protocol afterwards.
"""

from __future__ import annotations

from dataclasses import dataclass, field
from typing import Any

from . import spec


@dataclass
class MChild:
    ctype: int
    desc: str
    values: dict[int, str] = field(default_factory=dict)


@dataclass
class MNode:
    ntype: int
    version: str
    children: dict[int, MChild] = field(default_factory=dict)
    sketch_name: str = ""
    sketch_version: str = ""
    battery: int = 0
    heartbeat: int = 0
    sleeping: bool = False
    reboot: bool = False
    placeholder: bool = False

    def snapshot(self) -> tuple:
        return (
            None if self.placeholder else self.ntype,
            None if self.placeholder else self.version,
            self.sketch_name, self.sketch_version, self.battery, self.heartbeat, self.sleeping,
            tuple(sorted((cid, ch.ctype, ch.desc, tuple(sorted(ch.values.items())))
                         for cid, ch in self.children.items())),
        )


@dataclass
class Expect:
    """What the model demands of one step."""

    outcome: str = "yield"  # yield | error
    error: tuple[str, ...] = ()  # acceptable error class names (empty: any library error)
    error_id: tuple[str, int] | None = None  # ("node_id"|"child_id", value) the error must name
    fields: tuple | None = None  # fields a yield must carry
    writes: list[tuple[str, Any]] = field(default_factory=list)  # (tag, line | pattern)
    wake: int | None = None  # node whose parked commands are released in this step
    open_points: list[str] = field(default_factory=list)
    decoded: bool = True  # False: the line is rejected by the decoder
    registry_may_differ_for: set[int] = field(default_factory=set)


def parse_int(text: str) -> int | None:
    try:
        return int(text)
    except ValueError:
        return None


def parse_float_round(text: str) -> int | None:
    try:
        return round(float(text))
    except (ValueError, OverflowError):
        return None


class Model:
    def __init__(self, *, metric: bool = True) -> None:
        self.version: str | None = None
        self.proto = "1.4"
        self.nodes: dict[int, MNode] = {}
        self.parked: dict[tuple[int, int, int], str] = {}
        self.outstanding: set[int] = set()
        self.handed_out: set[int] = set()
        self.metric = metric

    # ----------------------------------------------------------------------------------
    def set_version_directly(self, version: str) -> None:
        """The application assigned Gateway.protocol_version (public setter)."""
        self.version = version
        self.proto = spec.pmap(version) or self.proto

    def snapshot(self) -> dict[int, tuple]:
        return {nid: node.snapshot() for nid, node in self.nodes.items()}

    # ----------------------------------------------------------------------------------
    def _apply_version(self, payload: str, hint: dict, exp: Expect) -> bool:
        """A version report.  Returns False if it must be / was rejected."""
        target = spec.pmap(payload)
        if target is not None:
            self.version = payload
            self.proto = target
            return True
        # not a plain release string: open point - follow the implementation
        exp.open_points.append("unparsable-version")
        if hint.get("kind") == "error":
            exp.outcome = "error"
            exp.error = ()
            return False
        self.version = payload
        if hint.get("proto") in spec.VERSIONS:
            self.proto = hint["proto"]
        return True

    def _flush(self, node_id: int, exp: Expect) -> None:
        exp.wake = node_id
        for key in [k for k in self.parked if k[0] == node_id]:
            exp.writes.append(("flush", self.parked.pop(key)))

    # ----------------------------------------------------------------------------------
    def rx(self, line: str, hint: dict) -> Expect:
        """One received line.  `hint` describes what the implementation did (open points only)."""
        exp = Expect()
        rec = spec.recognize(line)
        verdict = rec["verdict"]
        if verdict in ("reject", "either-reject") or (
                verdict == "either" and hint.get("kind") == "error" and hint.get("class") == "InvalidMessageError"
                and not hint.get("writes") and not hint.get("registry_changed")):
            exp.outcome, exp.error, exp.decoded = "error", ("InvalidMessageError",), False
            if verdict != "reject":
                exp.open_points.append("lenient-line")
            return exp
        if verdict == "either":
            exp.open_points.append("lenient-line")
        n, c, cmd, ack, t, p = rec["fields"]
        exp.fields = rec["fields"]
        proto_before = self.proto
        version_before = self.version
        two_x = spec.is2x(proto_before)
        missing: tuple[str, int] | None = None

        def miss_node() -> None:
            nonlocal missing
            missing = ("node_id", n)

        if cmd == spec.CMD_PRESENTATION and c == spec.SYSTEM_CHILD:
            if two_x:
                self.outstanding.discard(n)
            if n == 0 and spec.pmap(p) is None:
                # gateway presentation carrying an unparsable version: the report part is open
                before = self.nodes.get(0)
                accepted = self._apply_version(p, hint, exp)
                if accepted or hint.get("node0_recreated"):
                    self.nodes[0] = MNode(t, p)
                elif before is not None:
                    self.nodes[0] = before
                exp.registry_may_differ_for.add(0) if not accepted else None
            else:
                self.nodes[n] = MNode(t, p)
                if n == 0:
                    self._apply_version(p, hint, exp)
        elif cmd == spec.CMD_PRESENTATION:
            if n not in self.nodes:
                miss_node()
            else:
                self.nodes[n].children[c] = MChild(t, p)
        elif cmd in (spec.CMD_SET, spec.CMD_REQ):
            if n not in self.nodes:
                miss_node()
            elif c not in self.nodes[n].children:
                missing = ("child_id", c)
            elif cmd == spec.CMD_SET:
                self.nodes[n].children[c].values[t] = p
                if self.nodes[n].reboot:
                    exp.writes.append(("reaction", f"{n};255;3;0;13;\n"))
            else:
                value = self.nodes[n].children[c].values.get(t)
                if value is not None:
                    exp.writes.append(("reaction", f"{n};{c};1;0;{t};{value}\n"))
        elif cmd == spec.CMD_INTERNAL:
            if not spec.internal_exists(proto_before, t):
                exp.outcome, exp.error = "error", ("UnsupportedMessageError",)
            elif t == spec.I_BATTERY:
                level = parse_float_round(p)
                if n not in self.nodes:
                    # C04: a message referring to an unknown node fails with the error that names that node,
                    # whatever its payload (an unusable payload is not a stated reason to say something else)
                    miss_node()
                elif level is None:
                    exp.outcome, exp.error = "error", ()
                elif 0 <= level <= 100:
                    self.nodes[n].battery = level
                else:
                    exp.open_points.append("battery-out-of-range")
                    if hint.get("kind") == "error":
                        exp.outcome, exp.error = "error", ()
                    else:
                        self.nodes[n].battery = level
            elif t == spec.I_TIME:
                exp.writes.append(("time", (n, c)))
            elif t == spec.I_VERSION:
                self._apply_version(p, hint, exp)
            elif t == spec.I_ID_REQUEST:
                self._id_request(n, c, hint, exp)
            elif t == spec.I_CONFIG:
                exp.writes.append(("reaction", f"{n};{c};3;0;6;{'M' if self.metric else 'I'}\n"))
            elif t in (spec.I_SKETCH_NAME, spec.I_SKETCH_VERSION):
                if n not in self.nodes:
                    miss_node()
                elif t == spec.I_SKETCH_NAME:
                    self.nodes[n].sketch_name = p
                else:
                    self.nodes[n].sketch_version = p
            elif t == spec.I_GATEWAY_READY and two_x:
                exp.writes.append(("reaction", f"255;{c};3;0;20;\n"))
            elif t == spec.I_DISCOVER_RESPONSE and two_x:
                if n not in self.nodes:
                    miss_node()
            elif t == spec.I_HEARTBEAT_RESPONSE and two_x:
                beat = parse_int(p)
                if n not in self.nodes:
                    miss_node()
                elif beat is None:
                    exp.outcome, exp.error = "error", ()
                    exp.open_points.append("heartbeat-invalid-payload")
                    exp.registry_may_differ_for.add(n)
                else:
                    self.nodes[n].heartbeat = beat
                    if proto_before in ("2.0", "2.1"):
                        self.nodes[n].sleeping = True
                        self._flush(n, exp)
            elif t == spec.I_PRE_SLEEP and proto_before == "2.2":
                if n not in self.nodes:
                    miss_node()
                else:
                    self.nodes[n].sleeping = True
                    self._flush(n, exp)
        else:  # stream
            unsupported = not spec.stream_exists(proto_before, t)
            if n not in self.nodes:
                miss_node()
                if unsupported:
                    exp.open_points.append("error-precedence")
                    exp.error = ("MissingNodeError", "UnsupportedMessageError")
            elif unsupported:
                exp.outcome, exp.error = "error", ("UnsupportedMessageError",)

        if missing is not None:
            exp.outcome = "error"
            if not exp.error:
                exp.error = ("MissingNodeError",) if missing[0] == "node_id" else ("MissingChildError",)
            exp.error_id = missing
            observed_missing = hint.get("class") in ("MissingNodeError", "MissingChildError") or hint.get("kind") != "error"
            if two_x and n not in self.outstanding and (observed_missing or len(exp.error) == 1):
                exp.writes.append(("presreq", f"{n};255;3;0;19;\n"))
                if not hint.get("presreq_failed"):
                    self.outstanding.add(n)
                else:
                    exp.error = ()  # the transport error surfaces instead
                    exp.error_id = None
        if version_before is None and self.version is None and not (
                cmd == spec.CMD_INTERNAL and t in (spec.I_LOG, spec.I_GATEWAY_READY)):
            exp.writes.append(("version-query", "0;255;3;0;2;\n"))
        return exp

    def _id_request(self, n: int, c: int, hint: dict, exp: Expect) -> None:
        """C11, allocator-agnostic: the model validates the id the implementation chose."""
        highest = max(self.nodes) if self.nodes else 0
        free_above = highest < 254
        if hint.get("kind") == "error" and hint.get("class") == "TooManyNodesError":
            exp.outcome, exp.error = "error", ("TooManyNodesError",)
            if free_above:
                exp.open_points.append("too-many-nodes-while-free")  # C11 clause, judged by the check
            return
        new_id = hint.get("id_response")
        exp.writes.append(("idresp", (n, c)))
        failed_id = hint.get("id_response_failed")
        if new_id is None and isinstance(failed_id, int):
            # the response write failed: the id may stay reserved or be rolled back (either)
            exp.outcome, exp.error = "error", ()
            exp.open_points.append("id-response-write-failed")
            if failed_id in hint.get("registry_ids", ()) and failed_id not in self.nodes:
                self.nodes[failed_id] = MNode(17, "1.4", placeholder=True)
                self.handed_out.add(failed_id)
            return
        if isinstance(new_id, int):
            if new_id not in self.nodes:
                self.nodes[new_id] = MNode(17, "1.4", placeholder=True)
            self.handed_out.add(new_id)

    # ----------------------------------------------------------------------------------
    def tx(self, fields: tuple, buffered: bool) -> Expect:
        """One send() call of a codec-accepted message."""
        n, c, cmd, _ack, t, _p = fields
        exp = Expect(outcome="ok")
        line = ";".join(str(f) for f in fields) + "\n"
        node = self.nodes.get(n)
        if cmd == spec.CMD_SET and buffered and node is not None and node.sleeping:
            self.parked[(n, c, t)] = line
        else:
            exp.writes.append(("send", line))
        return exp

    # application-level attribute changes mirrored into the model
    def flag(self, node_id: int, name: str, value: bool) -> None:
        if node_id in self.nodes:
            setattr(self.nodes[node_id], name, value)

    def forget(self, node_id: int) -> None:
        """The application deletes a node from the registry: the id is no longer in use."""
        self.nodes.pop(node_id, None)
        self.handed_out.discard(node_id)

    def restore(self, node_id: int, node: MNode) -> None:
        """A node restored from persistence (inserted by the application)."""
        self.nodes[node_id] = node
