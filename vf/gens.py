"""Generators: payload pools, number pools, well-formed messages, lines."""

from __future__ import annotations

import itertools
import random
from typing import Iterator

from . import spec

NODE_IDS = [0, 1, 9, 10, 99, 100, 254, 255]
CHILD_IDS = [0, 1, 254, 255]
TYPES = [0, 1, 3, 4, 49, -5, 10**30]

PAYLOAD_POOL = [
    "",
    "0",
    "1",
    "20.5",
    "-3.5",
    "abc",
    ";",
    ";;",
    ";x",
    "x;",
    "a;b",
    "55.7;13.0;18",
    "40.741894,-73.989311,12",
    ";a;;b;",
    "1;2;1;0;0;nested",
    " lead",
    "  two lead",
    "in ner",
    "in  ner;x y",
    "\tlead-tab",
    "a\tb",
    "/",
    "a/b/c",
    "#+/",
    "\x00",
    "a\x00b",
    "\x01\x02\x7f",
    "\x1fx",
    "åäö",
    "ßμ",
    "日本語",
    "😀",
    "x😀;😀",
    "​",  # zero width space: not whitespace for str.isspace
    "﻿",
    "'\"\\",
    "%s %d {}",
    "nan",
    "inf",
    "1e400",
    "True",
    "None",
    "x" * 10000,
    ";".join("ab" for _ in range(300)),
    "-",
    "+",
    "٣",  # ARABIC-INDIC DIGIT THREE
    "a b",  # NBSP inside
    " x",  # leading NBSP
    # interior characters str.splitlines would split on: legal in a RECEIVED payload (the transport splits on \n only);
    # outside C01's round-trip domain (filtered there by spec.payload_ok_for_roundtrip)
    "first line\rsecond line",
    "a\x0bb",
    "a\x0cb",
    "a\x1cb",
    "a\x85b",
    "l1\u2028l2",
    "l1\u2029l2",
]

NUMBER_PAYLOADS = ["", "0", "1", "55", "100", "101", "150", "-1", "-3", "-3.5", "99.5", "100.4", "100.5",
                   "0.4", "-0.4", "abc", "nan", "inf", "-inf", "1e400", "1e3", "1_0", " 7", "7 ", "+7", "07",
                   "٣", "0x10", "True", "9" * 5000, "1.5", "2.0", "255", str(2**63), "1e2",
                   # digit-like characters: int() / float() accept the Nd ones (any script), isdigit / isnumeric more
                   "²", "①", "½", "Ⅳ", "１２", "५५", "5²", "⁵",
                   # digit-count ladder (int -> float conversions overflow from 309 digits, int() refuses from 4301)
                   *("1" + "0" * (n - 1) for n in (16, 17, 19, 20, 39, 40, 100, 308, 309, 310, 400, 1000, 4299, 4300, 4301)),
                   "-" + "9" * 350, "0." + "1" * 400, "1e308", "1e309", "-1e309", "1e-400", "9" * 309 + ".5", "1" * 330 + "e-300"]

VERSION_PAYLOADS = ["", "abc", "garbage", "2.x", "2.2-beta", "2", "1.4", "1.5", "1.5.0", "2.0", "2.0.0",
                    "2.1", "2.1.1", "2.2", "2.2.0", "2.3.2", "3.0", "0.9", "1.0.0", "2.10", "1.10.1",
                    "v2.2", " 2.2", "2..2", ".2", "2.", "-1.0", "1e1.2", "2.2.0.0", "2.2.0.0.0", "٢.٢",
                    "2.2;1", "nan", "1.4.1", "9" * 50 + ".0", "9" * 5000 + ".0", "２.２", "2.²", "②.0", "२.०"]

_ALPHABET = (
    list("abcXYZ0123456789 .,:-_+/\\#;;;;'\"()[]{}<>=!?*&^%$@~`|")
    + ["\t", "\x00", "\x01", "\x1f", "\x7f", "å", "ñ", "ß", "Ω", "ж", "中", "日", "😀", "​", "﻿",
       " ", "٣", "\U0001f9ea", "́"]
)


def random_payload(rng: random.Random, *, roundtrip_safe: bool = True) -> str:
    """Random payload; when roundtrip_safe, free of line terminators / trailing whitespace."""
    roll = rng.random()
    if roll < 0.15:
        return rng.choice(PAYLOAD_POOL)
    length = rng.choice([0, 1, 1, 2, 3, 5, 8, 13, 40, 200])
    text = "".join(rng.choice(_ALPHABET) for _ in range(length))
    if roll > 0.9:
        text = ";".join(rng.choice(["", "a", "1.5", " x", "日"]) for _ in range(rng.randint(2, 6)))
    if roundtrip_safe:
        text = "".join(ch for ch in text if ch not in spec.LINE_TERMINATORS).rstrip()
    return text


def wellformed_messages_small() -> Iterator[tuple[int, int, int, int, int]]:
    """Exhaustive product of boundary values filtered by the cross-field rules."""
    for node, child, cmd, ack, mtype in itertools.product(NODE_IDS, CHILD_IDS, range(5), (0, 1), TYPES):
        if spec.rules_ok(node, child, cmd, ack, mtype):
            yield node, child, cmd, ack, mtype


def random_wellformed(rng: random.Random) -> tuple[int, int, int, int, int]:
    while True:
        node = rng.choice([rng.randint(0, 255), rng.choice(NODE_IDS)])
        cmd = rng.randint(0, 4)
        ack = rng.randint(0, 1)
        mtype = rng.choice([rng.randint(0, 60), rng.choice(TYPES), rng.randint(-100, 10**6), 3, 4])
        child = rng.choice([rng.randint(0, 255), 255, 255, rng.choice(CHILD_IDS)])
        if spec.rules_ok(node, child, cmd, ack, mtype):
            return node, child, cmd, ack, mtype


# per-field representative alphabet for the C02 recognizer sweep
FIELD_ALPHABET = {
    "node": ["0", "1", "255", "256", "-1", "", "x", " 1", "01", "1.0", "0255", "+0"],
    "child": ["0", "7", "255", "256", "-1", "", "x", "+1", "1_0", "٣", "0255", "+255", " 255", "25_5", "-0"],
    "cmd": ["0", "1", "2", "3", "4", "5", "-1", "", "x", "1 ", "03", "+4", "02", " 1"],
    "ack": ["0", "1", "2", "-1", "", "x", "01", "True", "1e0", "+1", "00"],
    "type": ["0", "3", "4", "6", "49", "-5", "99999999999999999999", "", "x", "0x1", "+3", "1.0", "٤"],
}
NONPLAIN_TAILS = ["", "\n", "\r\n", " ", "  \n", "\t\n"]
