"""Fake aiomqtt client exposing exactly the surface aiomysensors' MQTTClient uses.

`install()` substitutes aiomysensors.transport.mqtt.AsyncioClient.  The fake records publishes and
subscriptions and serves `messages` from a queue that stays PENDING when empty (what the real
client does and the test-suite's exhausted generator hides); it can deliver MqttError and arbitrary
payload bytes.
"""

from __future__ import annotations

import asyncio
from contextlib import contextmanager
from typing import Any


class FakeTopic:
    def __init__(self, value: str) -> None:
        self.value = value

    def __str__(self) -> str:
        return self.value


class FakeMessage:
    def __init__(self, topic: str, payload: Any, qos: int = 0, retain: bool = False) -> None:
        self.topic = FakeTopic(topic)
        self.payload = payload
        self.qos = qos
        self.retain = retain
        self.mid = 0
        self.properties = None


class FakeMessages:
    def __init__(self, client: "FakeClient") -> None:
        self._client = client

    def __aiter__(self) -> "FakeMessages":
        return self

    async def __anext__(self) -> FakeMessage:
        if self._client.lost is not None:
            # like the real client after its connection was lost: every further __anext__ raises again at once.  A receive
            # loop that keeps iterating spins; the fake breaks such a loop after 2 000 rounds (SpinDetected is a
            # BaseException so that no `except Exception` of the code under test swallows it)
            self._client.raises_after_loss += 1
            if self._client.raises_after_loss > 2000:
                raise SpinDetected("the receive loop keeps iterating a connection that is lost")
            await asyncio.sleep(0)
            raise type(self._client.lost)(*self._client.lost.args)
        item = await self._client.queue.get()
        if isinstance(item, BaseException):
            if FakeClient.sticky_errors:
                self._client.lost = item
            raise item
        return item


class SpinDetected(BaseException):
    """The code under test iterates `client.messages` again and again after the connection was lost."""


class FakeClient:
    """Stands in for aiomqtt.Client."""

    sticky_errors = True   # a delivered MqttError means the connection is gone: iterating again raises again
    exit_delay = 0.0       # __aexit__ takes this long (a broker that does not answer the DISCONNECT) ...
    exit_timeout_error: BaseException | None = None  # ... and then raises this (aiomqtt's own time-out is an MqttError)

    instances: list["FakeClient"] = []
    connect_error: BaseException | None = None
    publish_error: BaseException | None = None
    subscribe_error: BaseException | None = None
    subscribe_fail_calls: set = set()   # indexes (since reset) of subscribe() calls the broker refuses
    subscribe_calls = 0
    exit_error: BaseException | None = None
    echo_prefixes: tuple[str, str] | None = None  # (out_prefix, in_prefix): publishes are echoed back

    def __init__(self, hostname: str = "", port: int = 1883, **kwargs: Any) -> None:
        self.hostname, self.port, self.kwargs = hostname, port, kwargs
        self.queue: asyncio.Queue = asyncio.Queue()
        self.published: list[tuple[str, Any, int, bool]] = []
        self.subscriptions: list[tuple[str, int]] = []
        self.entered = 0
        self.exited = 0
        self.lost: BaseException | None = None
        self.raises_after_loss = 0
        self.messages = FakeMessages(self)
        FakeClient.instances.append(self)

    async def __aenter__(self) -> "FakeClient":
        if FakeClient.connect_error is not None:
            raise FakeClient.connect_error
        self.entered += 1
        return self

    async def __aexit__(self, *exc: Any) -> None:
        if FakeClient.exit_delay:
            await asyncio.sleep(FakeClient.exit_delay)
        self.exited += 1
        if FakeClient.exit_timeout_error is not None:
            raise FakeClient.exit_timeout_error
        if FakeClient.exit_error is not None:
            raise FakeClient.exit_error

    publish_gate: "asyncio.Event | None" = None  # when set, publish() suspends until the harness sets the event

    async def publish(self, topic: str, payload: Any = None, qos: int = 0, retain: bool = False, **kwargs: Any) -> None:
        if qos not in (0, 1, 2):
            raise ValueError("Invalid QoS level.")
        self.publish_calls = getattr(self, "publish_calls", 0) + 1
        await asyncio.sleep(0)
        if FakeClient.publish_gate is not None:
            await FakeClient.publish_gate.wait()
        if FakeClient.publish_error is not None:
            raise FakeClient.publish_error
        self.published.append((topic, payload, qos, retain))
        if FakeClient.echo_prefixes is not None:
            out_prefix, in_prefix = FakeClient.echo_prefixes
            if topic.startswith(out_prefix + "/"):
                data = b"" if payload is None else (payload.encode() if isinstance(payload, str) else payload)
                self.queue.put_nowait(FakeMessage(in_prefix + topic[len(out_prefix):], data, qos))

    async def subscribe(self, topic: str, qos: int = 0, **kwargs: Any) -> None:
        if qos not in (0, 1, 2):
            raise ValueError("Invalid QoS level.")  # what paho answers
        await asyncio.sleep(0)
        if FakeClient.subscribe_error is not None:
            raise FakeClient.subscribe_error
        index = FakeClient.subscribe_calls
        FakeClient.subscribe_calls += 1
        if index in FakeClient.subscribe_fail_calls:
            from aiomqtt import MqttError

            raise MqttError("subscription refused (ACL)")
        self.subscriptions.append((topic, qos))

    # harness side
    def deliver(self, topic: str, payload: bytes, qos: int = 0, retain: bool = False) -> None:
        self.queue.put_nowait(FakeMessage(topic, payload, qos, retain))

    def deliver_error(self, error: BaseException) -> None:
        self.queue.put_nowait(error)

    @classmethod
    def reset(cls) -> None:
        cls.instances = []
        cls.connect_error = cls.publish_error = cls.subscribe_error = cls.exit_error = None
        cls.subscribe_fail_calls = set()
        cls.subscribe_calls = 0
        cls.echo_prefixes = None
        cls.publish_gate = None
        cls.exit_delay = 0.0
        cls.exit_timeout_error = None
        cls.sticky_errors = True


@contextmanager
def install():
    """Substitute the aiomqtt client class used by aiomysensors.transport.mqtt; yields True if a seam exists."""
    import aiomysensors.transport.mqtt as module

    FakeClient.reset()
    seam = None
    for name in ("AsyncioClient", "Client"):
        if hasattr(module, name):
            seam = name
            break
    if seam is None:
        yield False
        return
    original = getattr(module, seam)
    setattr(module, seam, FakeClient)
    try:
        yield True
    finally:
        setattr(module, seam, original)
        FakeClient.reset()
