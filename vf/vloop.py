"""VLoop: an asyncio event loop with virtual time and deterministic executor (C16, C18).

* time() is a virtual clock; the selector polls real FDs with timeout 0 and, when nothing is
  ready, ADVANCES the clock by the requested timeout instead of sleeping.
* select(None) with nothing ready means "nothing can ever wake this loop": a logical deadlock,
  recorded (and raised as LogicalDeadlock) - this is how "hangs forever" is decided on logical
  steps rather than wall-clock.
* InlineExecutor runs submitted functions synchronously and returns a completed future, so
  every aiofiles operation stays a distinct suspension point of the coroutine but completes
  deterministically.
"""

from __future__ import annotations

import asyncio
import concurrent.futures
import selectors


class LogicalDeadlock(BaseException):
    """The loop has nothing scheduled and no FD can become ready."""


class VSelector:
    def __init__(self, loop_ref: list) -> None:
        self._real = selectors.DefaultSelector()
        self._loop_ref = loop_ref

    def select(self, timeout=None):
        events = self._real.select(0)
        loop = self._loop_ref[0]
        loop.iterations += 1
        if not events and loop.grace and len(self._real.get_map()) > 1:
            # real sockets / ptys are registered (loopback peers inside this process): give the kernel a moment of REAL
            # time to deliver before concluding that nothing is ready and jumping the virtual clock
            events = self._real.select(loop.grace)
        if events:
            return events
        if timeout is None:
            # only the self-pipe is registered and nothing is scheduled
            loop.deadlocks += 1
            raise LogicalDeadlock
        if timeout > 0:
            loop.vtime += timeout
        return []

    def __getattr__(self, name):
        return getattr(self._real, name)


class InlineExecutor(concurrent.futures.ThreadPoolExecutor):
    def __init__(self) -> None:
        super().__init__(max_workers=1)
        self.calls = 0

    def submit(self, fn, /, *args, **kwargs):
        self.calls += 1
        future: concurrent.futures.Future = concurrent.futures.Future()
        try:
            future.set_result(fn(*args, **kwargs))
        except BaseException as exc:  # noqa: BLE001
            future.set_exception(exc)
        return future


class DelayedExecutor(concurrent.futures.ThreadPoolExecutor):
    """A slow disk on the virtual clock: every submitted function takes effect `delay` virtual seconds after it was
    submitted - whether or not the coroutine that waits for it is still interested (a worker thread cannot be recalled)."""

    def __init__(self, loop: "VLoop", delay) -> None:
        super().__init__(max_workers=1)
        self.loop = loop
        # a number, or a list of per-call delays used cyclically: worker threads do not finish in submission order (one
        # job's thread is slow to start, another's disk access hangs) - a job may take effect after jobs submitted later
        self.delays = list(delay) if isinstance(delay, (list, tuple)) else [delay]
        self.calls = 0

    def submit(self, fn, /, *args, **kwargs):
        self.calls += 1
        future: concurrent.futures.Future = concurrent.futures.Future()

        def run() -> None:
            try:
                result = fn(*args, **kwargs)
            except BaseException as exc:  # noqa: BLE001
                if not future.cancelled():
                    future.set_exception(exc)
            else:
                if not future.cancelled():
                    future.set_result(result)

        future.set_running_or_notify_cancel()  # like a thread that has started: cancel() no longer stops it
        self.loop.call_later(self.delays[(self.calls - 1) % len(self.delays)], run)
        return future


class VLoop(asyncio.SelectorEventLoop):
    def __init__(self, *, inline_executor: bool = True, grace: float = 0.0, executor_delay=0.0) -> None:
        ref: list = [None]
        self.grace = grace
        self.executor_delay = executor_delay
        self.vtime = 0.0
        self.iterations = 0
        self.deadlocks = 0
        super().__init__(selector=VSelector(ref))
        ref[0] = self
        self.records: list[dict] = []
        self.set_exception_handler(self._record)
        if executor_delay:
            self.inline = DelayedExecutor(self, executor_delay)
            self.set_default_executor(self.inline)
        elif inline_executor:
            self.inline = InlineExecutor()
            self.set_default_executor(self.inline)

    def time(self) -> float:
        return self.vtime

    def _record(self, loop, context) -> None:
        self.records.append({"message": context.get("message"), "exception": repr(context.get("exception")),
                             "task": repr(context.get("task") or context.get("future"))[:200]})


def run_virtual(coro_factory, *, inline_executor: bool = True, grace: float = 0.0, executor_delay=0.0):
    """Run coro_factory() on a fresh VLoop; returns (result, loop).  LogicalDeadlock propagates as result.
    grace > 0: the loop serves real loopback sockets (see VSelector.select)."""
    loop = VLoop(inline_executor=inline_executor, grace=grace, executor_delay=executor_delay)
    asyncio.set_event_loop(loop)
    try:
        try:
            result = loop.run_until_complete(coro_factory())
        except LogicalDeadlock as dead:
            result = dead
        except (KeyboardInterrupt, SystemExit):
            raise
        except BaseException as exc:  # noqa: BLE001 - what the scenario raised (CancelledError included) is an observation
            result = exc              # for the caller's oracle; one defect must not end the run and hide the others
        return result, loop
    finally:
        try:
            pending = [t for t in asyncio.all_tasks(loop) if not t.done()]
            for task in pending:
                task.cancel()
            if pending:
                try:
                    loop.run_until_complete(asyncio.gather(*pending, return_exceptions=True))
                except BaseException:  # noqa: BLE001
                    pass
            loop.run_until_complete(loop.shutdown_asyncgens())
        except BaseException:  # noqa: BLE001
            pass
        asyncio.set_event_loop(None)
        loop.close()
