"""Runtime-monitoring framework for aiomysensors properties C01-C19 (see DESIGN.md)."""
