"""C11 - node ids handed out are fresh, in range and never handed out twice.

Property-level oracle (does not predict WHICH id, works for any allocator): every id response
payload is in 1..254, not in the registry before the step, never handed out before; the id is in
Gateway.nodes at the moment the response is written (asserted inside Transport.write, i.e. at the
boundary event); the response is addressed like the request; TooManyNodesError writes nothing,
changes nothing and is never raised while an id above the highest registered id is free.
"""

from __future__ import annotations

from ..harness import FAULT_CLASSES, VERSIONS
from ..lscheck import replay_case, run_cases
from ..reach import Reach

LEVEL = "exploration"
SHARDS = {"quick": 6, "thorough": 16}
RULE = ("registry shapes (empty, {0}, dense 1..k, sparse, {254}, {255}, {0,254}, 0..253, 1..254, 0..254, random subsets of "
        "0..255; restored-from-persistence or presented over the wire) x 1-6 id requests (addressed 255;255, n;255, "
        "255;c) interleaved with presentations of low/high/handed-out ids x 5 versions; request storms until exhaustion "
        "(260 requests); write faults on the response; distinct = distinct (version, steps, faults); non-trivial = at "
        "least one id request on a non-empty registry or >= 2 requests")
ASSUMES = ["when the response write fails the id may stay reserved or be released (open point)"]
ANCHORS = ["aiomysensors.model.protocol.protocol_14:IncomingMessageHandler.handle_i_id_request"]

SHAPES = [
    [], [0], [1], [1, 2], list(range(1, 6)), list(range(1, 51)), [3, 9], [1, 3, 5], [200], [253], [252, 253], [254],
    [255], [0, 254], [0, 255], [254, 255], list(range(0, 254)), list(range(1, 254)), list(range(1, 255)),
    list(range(0, 255)), list(range(0, 256)), [0, 1, 253], [100, 254], [2, 253],
]
REQUESTS = ["255;255;3;0;3;", "255;255;3;1;3;x", "7;255;3;0;3;", "255;9;3;0;3;", "0;0;3;0;3;"]


def shape_steps(rng, shape: list[int], via_wire: bool) -> list[list]:
    if via_wire:
        return [["rx", f"{n};255;0;0;17;2.0\n"] for n in shape]
    return [["restore", n, {"type": 17, "version": "2.0", "children": {}}] for n in shape]


def cases(ctx):
    rng = ctx.rng
    count = 0
    interleave = ["1;255;0;0;17;2.0", "2;255;0;0;17;2.0", "100;255;0;0;17;2.0", "253;255;0;0;17;2.0",
                  "254;255;0;0;17;2.0", "3;0;0;0;6;c", "255;255;0;0;17;2.0"]
    for si, shape in enumerate(SHAPES):
        for version in [None, *VERSIONS]:
            for nreq in range(1, 7):
                for variant in range(4):
                    if not ctx.mine():
                        continue
                    count += 1
                    steps = shape_steps(rng, shape, via_wire=(variant == 1 and len(shape) < 60))
                    for r in range(nreq):
                        steps.append(["rx", REQUESTS[(r + variant + si) % len(REQUESTS)] + "\n"])
                        if variant == 2:
                            steps.append(["rx", interleave[(r + si) % len(interleave)] + "\n"])
                        if variant == 3:
                            # a node with a static id just above the ids handed out so far presents itself
                            nxt = max(shape or [0]) + 2 * (r + 1)
                            if nxt <= 254:
                                steps.append(["rx", f"{nxt};255;0;0;17;2.0\n"])
                                steps.append(["rx", f"{nxt};1;0;0;6;c\n"])
                    yield {"version": version, "steps": steps}
    # the registry is the only thing that decides: commands parked in the sleep buffer for a node, episodes of open
    # presentation requests, reboot flags - none of it keeps an id occupied once the application removed the node
    for version in [None, *VERSIONS]:
        for top in (254, 253, 200, 9):
            for low in ([], [1], [1, 2, 3], [0]):
                for forget in (True, False):
                    if not ctx.mine():
                        continue
                    count += 1
                    steps = [["restore", n, {"type": 17, "version": "2.0", "children": {"0": [3, "c", {"2": "1"}]}}] for n in low]
                    steps.append(["restore", top, {"type": 17, "version": "2.0", "sleeping": True,
                                                   "children": {"0": [3, "c", {"2": "1"}]}}])
                    steps.append(["tx", [top, 0, 1, 0, 2, "parked-a"], True])
                    steps.append(["tx", [top, 0, 1, 1, 3, "parked-b"], True])
                    steps.append(["flag", top, "reboot", True])
                    if forget:
                        steps.append(["forget", top])
                    for r in range(3):
                        steps.append(["rx", REQUESTS[(r + top) % len(REQUESTS)] + "\n"])
                    yield {"version": version, "steps": steps}
    # the public `nodes` attribute is re-bound to a new dict between requests (same content / one node fewer)
    for version in [None, *VERSIONS]:
        for shape in ([], [1], [1, 2, 3], [5, 200], list(range(1, 40))):
            if not ctx.mine():
                continue
            count += 1
            steps = shape_steps(rng, shape, via_wire=False)
            steps += [["rx", REQUESTS[0] + "\n"], ["rebind"], ["rx", REQUESTS[1] + "\n"], ["rx", "77;255;0;0;17;2.0\n"], ["rebind"],
                      ["rx", REQUESTS[0] + "\n"], ["rx", REQUESTS[2] + "\n"]]
            yield {"version": version, "steps": steps}
    # time passes between the requests (all clocks, vf.vclock): an id that was handed out stays taken however long the
    # node that got it stays silent
    from .. import codedict

    jumps = [d for d in codedict.durations() if d >= 29]
    for version in [None, *VERSIONS]:
        for shape in ([], [1], [1, 2, 3], [5, 200]):
            for start in range(0, len(jumps), 6):
                if not ctx.mine():
                    continue
                count += 1
                steps = shape_steps(rng, shape, via_wire=False)
                for k, seconds in enumerate(jumps[start:start + 6]):
                    steps.append(["rx", REQUESTS[k % len(REQUESTS)] + "\n"])
                    steps.append(["clock", seconds])
                steps += [["rx", REQUESTS[0] + "\n"], ["rx", REQUESTS[1] + "\n"]]
                yield {"version": version, "steps": steps}
    # every Config option this harness does not know, set to a non-default value: the id rules are allocator-agnostic, so
    # they hold for whatever allocation policy an option selects
    from ..harness import unknown_options

    for extra in unknown_options():
        for si, shape in enumerate(SHAPES):
            for version in (None, "1.5", "2.2"):
                if not ctx.mine():
                    continue
                count += 1
                steps = shape_steps(rng, shape, via_wire=False)
                for r in range(3):
                    steps.append(["rx", REQUESTS[(r + si) % len(REQUESTS)] + "\n"])
                yield {"version": version, "steps": steps, "config_extra": extra}
    ctx.exhaustive["shape-x-version-x-requests"] = count
    # random subsets, storms, faults
    for i in range(ctx.pick(150, 60000) // ctx.shard_count):
        version = [None, *VERSIONS][i % 6]
        size = rng.choice([0, 1, 3, 10, 100, 250])
        shape = sorted(rng.sample(range(0, 256), size))
        steps = shape_steps(rng, shape, via_wire=False)
        storm = i % 10 == 0
        for r in range(260 if storm else rng.randint(1, 12)):
            steps.append(["rx", rng.choice(REQUESTS) + "\n"])
            if rng.random() < 0.3:
                steps.append(["rx", f"{rng.choice([1, 2, 5, 100, 200, 253, 254, rng.randint(0, 255)])};255;0;0;17;2.0\n"])
        case = {"version": version, "steps": steps}
        if i % 4 == 1 and version is not None:
            case["faults"] = sorted(rng.sample(range(12), 3))
            case["fault_class"] = rng.choice(FAULT_CLASSES)
        yield case


def run_case(ctx, case: dict) -> None:
    replay_case(ctx, case)


def run(ctx) -> None:
    with Reach(ANCHORS) as reach:
        run_cases(ctx, cases(ctx))
    reach.into(ctx)
    for clause in ("id-response", "id-registered-before-write", "too-many-nodes"):
        ctx.require(clause, 50)
