"""C09 - no set command is lost when send() races with the wake-up flush.

Director (vf.sched): every order of gate releases / sender starts for bounded configurations,
re-executed from a fresh Gateway per schedule; per-key checker over the unique-value history at
quiescence + one more uncontended wake:  last written == last sent, every written value was sent,
no value written more often than sent; a schedule that cannot finish is a deadlock witness.
"""

from __future__ import annotations

import asyncio

import itertools

from ..harness import run as arun
from ..reach import Reach
from ..sched import explore, run_schedule

LEVEL = "exploration"
SHARDS = {"quick": 8, "thorough": 16}
RULE = ("ALL schedules (choice sequences over {complete pending write k, start sender i}) for configurations of 1-3 "
        "(thorough 4) pre-parked commands x 1-3 senders (thorough: up to 2 sends each) x key relations (same key, same "
        "node other key, other sleeping node, awake node as noise) x 1-2 wakes in the listener x versions 2.0/2.2; plus "
        "seeded random schedules for larger configurations (6 senders); distinct = distinct (configuration, choice "
        "sequence); non-trivial = schedule with at least one sender started while a write was pending")
ASSUMES = ["racing sends to the flushing node are default-buffered sends (the statement's scenario); unbuffered sends appear "
           "only on other nodes", "write order = order of Transport.write calls (what real transports preserve)"]
ANCHORS = ["aiomysensors.model.protocol.protocol_20:IncomingMessageHandler._handle_sleep_buffer",
           "aiomysensors.model.protocol.protocol_14:OutgoingMessageHandler.handle_set"]

A, B, C = 1, 2, 3
K1, K2, K3, K4 = [A, 0, 2], [A, 0, 3], [A, 1, 2], [A, 2, 2]
KB = [B, 0, 2]


def configurations(ctx):
    max_parked = ctx.pick(3, 4)
    parked_sets = [[K1], [K1, K2], [K1, KB], [K1, K2, K3], [K1, K2, KB]]
    if max_parked >= 4:
        parked_sets += [[K1, K2, K3, K4], [K1, K2, K3, KB]]
    send_options = [[*K1, True], [*K2, True], [*K4, True], [*KB, True], [C, 0, 2, False]]
    for version in ("2.0", "2.2"):
        for parked in parked_sets:
            for wakes in ([A], [A, A], [A, B]):
                for nsend in (1, 2, 3):
                    for combo in itertools.combinations_with_replacement(send_options, nsend):
                        if nsend == 3 and len(parked) > 2 and len(wakes) > 1:
                            continue  # keeps the exhaustive space tractable; covered by random schedules below
                        yield {"version": version, "parked": parked, "senders": [[list(s)] for s in combo],
                               "wakes": wakes, "awake": [C]}
    # whatever received message makes the listener release parked commands (not only the documented wake type):
    # every internal type of the version as the listener's message, racing a send for a later key of the flush
    from .. import spec

    for version in ("2.0", "2.1", "2.2"):
        for t in range(0, spec.INTERNAL_MAX[version] + 1):
            if t in (2, 3):
                continue
            for senders in ([[[*K2, True]]], [[[*K1, True]]], [[[*K2, True]], [[*K1, True]]]):
                yield {"version": version, "parked": [K1, K2], "senders": senders, "wakes": [A], "awake": [C],
                       "listener_type": t}
    # the target node is AWAKE when the first senders start (their writes go straight to the transport and suspend
    # there); the listener's wake messages are Director-controlled events too, so a wake can be delivered while such a
    # direct write is still pending and later senders park
    for version in ("2.0", "2.2"):
        for senders in ([[[*K1, True]], [[*K1, True]]], [[[*K1, True]], [[*K2, True]], [[*K1, True]]],
                        [[[*K1, True], [*K1, True]], [[*K1, True]]], [[[*K2, False]], [[*K1, True]], [[*K1, True]]]):
            for wakes in ([A], [A, A]):
                yield {"version": version, "parked": [], "senders": senders, "wakes": wakes, "awake": [A, C],
                       "gated_wakes": True}
    # one Message object per actuator, payload changed and the same object sent again while the flush is under way
    for version in ("2.0", "2.2"):
        for parked in ([K1], [K1, K2], [K1, K2, K3]):
            for senders in ([[[*K1, True]]], [[[*K2, True]]], [[[*K1, True]], [[*K2, True]]], [[[*K1, True], [*K1, True]]]):
                yield {"version": version, "parked": parked, "senders": senders, "wakes": [A, A], "awake": [C],
                       "reuse_objects": True}
    if not ctx.quick:
        for version in ("2.0", "2.1", "2.2"):
            for parked in ([K1], [K1, K2]):
                for combo in itertools.combinations_with_replacement(send_options[:4], 2):
                    yield {"version": version, "parked": parked,
                           "senders": [[list(combo[0]), list(combo[1])], [list(combo[1]), list(combo[0])]],
                           "wakes": [A, A], "awake": [C]}


def judge(ctx, config: dict, prefix, outcome, mode: str) -> None:
    overlapped = any(label.startswith("S") for label in outcome.labels[1:]) and outcome.max_pending > 0
    case = {"config": config, "choices": outcome.choices, "labels": outcome.labels, "mode": mode}
    ctx.case((repr(config), tuple(outcome.choices)), nontrivial=overlapped,
             sample={"config": config, "schedule": outcome.labels, "written": {str(k): v for k, v in outcome.written.items()}})
    ctx.clause("schedule-judged")
    ctx.clause("per-key-history", len(outcome.sent))
    ctx.obs("decisions", len(outcome.choices))
    ctx.obs(f"max-pending-writes:{outcome.max_pending}")
    ctx.distinct_outcomes.add(hash(outcome.signature))
    for key, what in outcome.problems:
        if key == "lost-update":
            # classify the mechanism for the findings key
            import re

            match = re.search(r"last sent '(.+?)' but writes were (\[.*?\]) \(", what)
            if "S" not in "".join(outcome.labels):
                key = "lost-update-sequential"
            elif match and f"'{match.group(1)}'" in match.group(2):
                key = "stale-value-written-after-newer"
            else:
                key = "racing-send-never-written"  # e.g. the flush pops an entry a concurrent send just replaced
        if config.get("reuse_objects") and key.startswith(("racing-send", "stale-value", "lost-update")):
            key += "-reused-object"  # its own mechanism (F22): the application sends the same Message object again
        ctx.violation(key, f"schedule {' '.join(outcome.labels)}: {what}", case)
    for err in outcome.listener_errors:
        if not err["library"]:
            ctx.violation("listener-foreign-exception-" + err["class"],
                          f"schedule {' '.join(outcome.labels)}: listen raised {err['class']}: {err.get('text')}", case)
        else:
            ctx.obs("listener-library-error:" + err["class"])
    for err in outcome.sender_errors:
        ctx.violation("send-raised-" + err["class"], f"schedule {' '.join(outcome.labels)}: send raised {err}", case)


async def tcp_flush_race_case(ctx, version: str, n_parked: int, payload_len: int) -> None:
    """The send / flush race on a REAL transport: Gateway over loopback TCP, the peer (the gateway device) announces that
    node A is awake and then stops reading for a while, so the flush is stuck in the transport's back-pressure; meanwhile
    the application sends new values for keys that are parked; the peer reads again, the node wakes twice more.  Same
    oracle as the scheduler's: per key the last value sent is the last value written, nothing written more often than
    sent, every write carries a sent value.  (Transports may batch, pipeline, or drain once per wake - the scripted
    transport of the scheduler cannot show that.)"""
    import socket

    from aiomysensors.gateway import Config, Gateway
    from aiomysensors.model.message import Message
    from aiomysensors.model.node import Child, Node
    from aiomysensors.transport.tcp import TCPTransport

    case = {"kind": "tcp-flush-race", "version": version, "parked": n_parked, "payload_len": payload_len}
    wake = 32 if version == "2.2" else 22
    received = bytearray()
    resume = asyncio.Event()
    peer_writer_box: list = []
    connected = asyncio.Event()

    async def handler(reader, writer) -> None:
        peer_writer_box.append(writer)
        connected.set()
        try:
            await resume.wait()
            while True:
                data = await reader.read(65536)
                if not data:
                    break
                received.extend(data)
        except OSError:
            pass
        finally:
            writer.close()

    server = await asyncio.start_server(handler, "127.0.0.1", 0)
    server.sockets[0].setsockopt(socket.SOL_SOCKET, socket.SO_RCVBUF, 4096)
    transport = TCPTransport("127.0.0.1", server.sockets[0].getsockname()[1])
    gateway = Gateway(transport, Config())
    gateway.protocol_version = version
    gateway.nodes[A] = Node(A, 17, "2.0", children={c: Child(c, 3) for c in range(4)}, sleeping=True)
    sent: dict[tuple, list[str]] = {}
    pad = "p" * payload_len
    listener_errors: list[str] = []
    try:
        async with gateway:
            await asyncio.wait_for(connected.wait(), 10)
            sock = transport.writer.get_extra_info("socket")
            sock.setsockopt(socket.SOL_SOCKET, socket.SO_SNDBUF, 4096)
            keys = [(A, c, t) for t in range(2, 2 + n_parked // 4 + 1) for c in range(4)][:n_parked]
            for i, (n, c, t) in enumerate(keys):
                value = f"p{i}-{pad}"
                sent.setdefault((n, c, t), []).append(value)
                await gateway.send(Message(n, c, 1, 0, t, value))

            async def listen() -> None:
                try:
                    async for _message in gateway.listen():
                        pass
                except Exception as exc:  # noqa: BLE001
                    listener_errors.append(f"{type(exc).__name__}: {exc!s:.80}")

            listener = asyncio.ensure_future(listen())
            peer = peer_writer_box[0]
            peer.write(f"{A};255;3;0;{wake};1\n".encode())
            await peer.drain()
            await asyncio.sleep(0.3)  # the flush runs into the peer's closed window
            racers = [keys[0], keys[len(keys) // 2], keys[-1], (A, 0, 9000)]
            for j, (n, c, t) in enumerate(racers):
                value = f"racer{j}"
                sent.setdefault((n, c, t), []).append(value)
                await asyncio.wait_for(gateway.send(Message(n, c, 1, 0, t, value)), 10)
            async def settle() -> None:
                # not a deadline: wait until the peer has received nothing new for a full second and the transport has
                # nothing queued (on a loaded machine that simply takes longer); 90 s cap as a watchdog only
                quiet, last = 0, -1
                for _ in range(900):
                    await asyncio.sleep(0.1)
                    size = len(received) + transport.writer.transport.get_write_buffer_size() * 10**9
                    quiet = quiet + 1 if size == last else 0
                    last = size
                    if quiet >= 10:
                        return
                ctx.obs("tcp-flush-race-watchdog")

            resume.set()
            await settle()
            for _ in range(2):
                peer.write(f"{A};255;3;0;{wake};1\n".encode())
                await peer.drain()
                await settle()
            listener.cancel()
            await asyncio.gather(listener, return_exceptions=True)
        await asyncio.sleep(0.2)
    finally:
        server.close()
        try:  # on Python 3.12 this waits for every open connection: bounded, a case that failed half-way leaves one open
            await asyncio.wait_for(server.wait_closed(), 5)
        except asyncio.TimeoutError:
            pass
    ctx.case(("tcp-flush-race", version, n_parked, payload_len), sample=case)
    ctx.clause("flush-race-on-real-tcp")
    written: dict[tuple, list[str]] = {}
    for raw in bytes(received).decode("utf-8", "replace").split("\n"):
        parts = raw.split(";", 5)
        if len(parts) == 6 and parts[2] == "1":
            written.setdefault((int(parts[0]), int(parts[1]), int(parts[4])), []).append(parts[5])
    for err in listener_errors:
        ctx.obs("tcp-flush-race-listener-error:" + err.split(":")[0])
    for key, values in sent.items():
        got = written.get(key, [])
        if not got or got[-1] != values[-1]:
            ctx.violation("racing-send-never-written" if len(values) > 1 else "command-lost",
                          f"real TCP, {n_parked} parked, flush stuck in back-pressure: key {key} last sent {values[-1][:12]!r}, "
                          f"written {[g[:12] for g in got]}", case)
            break
        if any(got.count(v) > values.count(v) for v in set(got)):
            ctx.violation("value-written-twice", f"real TCP: key {key} written {[g[:12] for g in got]} for sends "
                                                 f"{[v[:12] for v in values]}", case)
            break
    for key in written:
        if key not in sent:
            ctx.violation("phantom-write", f"real TCP: key {key} was written but never sent", case)
            break


def run_case(ctx, case: dict) -> None:
    if case.get("kind") == "tcp-flush-race":
        arun(tcp_flush_race_case(ctx, case["version"], case["parked"], case["payload_len"]))
        return
    ctx.distinct_outcomes = set()
    from .. import harness as _harness

    with _harness.options(case["config"].get("config_extra")):
        outcome = arun(run_schedule(case["config"], case["choices"]))
    judge(ctx, case["config"], case["choices"], outcome, "replay")


def run(ctx) -> None:
    ctx.distinct_outcomes = set()
    rng = ctx.rng
    with Reach(ANCHORS) as reach:
        total = 0
        for config in configurations(ctx):
            if not ctx.mine():
                continue
            for prefix, outcome in explore(config, lambda c, p: arun(run_schedule(c, p)), limit=ctx.pick(4000, 40000)):
                judge(ctx, config, prefix, outcome, "dfs")
                total += 1
        ctx.exhaustive["schedules-enumerated"] = total
        # options of Config this harness knows nothing about, set to non-default values: "no set command is lost" does not
        # depend on how the gateway is configured, so a sample of the configurations is explored again under each
        from .. import harness as _harness

        for extra in _harness.unknown_options():
            under = 0
            for index, config in enumerate(configurations(ctx)):
                if index % 7 and not config.get("gated_wakes"):
                    continue
                if not ctx.mine():
                    continue
                with _harness.options(extra):
                    for prefix, outcome in explore(config, lambda c, p: arun(run_schedule(c, p)), limit=ctx.pick(600, 6000)):
                        judge(ctx, dict(config, config_extra=extra), prefix, outcome, "dfs-under-option")
                        under += 1
            ctx.obs("schedules-under-unknown-option:" + ",".join(sorted(extra)), under)
        # random schedules for larger configurations
        options = [[*K1, True], [*K2, True], [*K3, True], [*KB, True], [C, 0, 2, False], [*K1, True]]
        for i in range(ctx.pick(300, 12000) // ctx.shard_count):
            nsenders = rng.choice([4, 5, 6])
            many = [[A, c, t] for c in range(4) for t in (2, 3)] + [[B, c, 2] for c in range(3)]
            config = {"version": ("2.0", "2.1", "2.2")[i % 3],
                      "parked": rng.choice([[K1, K2, K3, K4], [K1, K2, KB], [K1], many, many[:6]]),
                      "senders": [[list(rng.choice(options)) for _ in range(rng.choice([1, 2]))] for _ in range(nsenders)],
                      "wakes": rng.choice([[A], [A, A], [A, B, A], [A, B, A, B, A]]), "awake": [C]}
            outcome = arun(run_schedule(config, [], rng))
            judge(ctx, config, outcome.choices, outcome, "random")
        # scale: the race with 1 100 - 3 000 commands parked (tables that reorganise themselves when they grow: pruning,
        # rehashing, spilling); a sender parks / replaces a command after the first k writes of the flush, all other
        # writes complete in order, then the node wakes twice more
        mass = [[A, c, t] for t in range(2, 1400) for c in range(4)]
        # sizes around the round numbers people pick for thresholds (a table that reorganises itself "at 1024 entries"
        # does so only when a send finds exactly that many): n-1, n, n+1 for powers of two and decimal round numbers
        from .. import codedict

        rounds = [16, 32, 64, 100, 128, 200, 250, 256, 500, 512, 1000, 1024, 2000, 2048, 4096, 5000]
        # plus every numeric constant of the code under test the reference tree does not have (n-1, n, n+1)
        sizes = sorted(codedict.thresholds(rounds, low=3, cap=2049 if ctx.quick else 5001))
        sends = [[A, 0, 9000, True], [A, 1, 2, True], [B, 0, 2, True]]
        index = 0
        for size in sizes:
            for prefix in ([1], [0, 1]):
                index += 1
                if not ctx.mine(index):
                    continue
                config = {"version": ("2.0", "2.2", "2.1")[index % 3], "parked": mass[:size],
                          "senders": [[sends[index % 3]]], "wakes": [A, A, B, A], "awake": [C], "max_steps": size * 3 + 100}
                outcome = arun(run_schedule(config, prefix))
                ctx.clause("mass-race")
                ctx.obs(f"mass-race-parked:{size}")
                judge(ctx, config, outcome.choices, outcome, "mass")
        for i, (version, n_parked, payload_len) in enumerate([("2.0", 300, 1000), ("2.2", 40, 4000), ("2.1", 600, 300)]):
            if ctx.mine(i + 2):
                try:
                    arun(asyncio.wait_for(tcp_flush_race_case(ctx, version, n_parked, payload_len), 150))
                except OSError as err:
                    ctx.skip("loopback-tcp", str(err))
                except asyncio.TimeoutError:
                    # seen with seeded change C09-10: the case sat idle until the shard's 600 s watchdog. A generous
                    # wall-clock limit of its own; its firing is no verdict
                    ctx.skip("loopback-tcp", "case did not finish within its 150 s wall-clock watchdog")
    reach.into(ctx)
    ctx.obs("distinct-final-outcomes", len(ctx.distinct_outcomes))
    ctx.require("schedule-judged", 100)
