"""C13 - persistence round trip through REAL files (real aiofiles, scratch directory).

Registries are reached by feeding random message histories to a real Gateway (boundary payloads:
battery 150 / -3, empty and non-ASCII strings, negative and huge type numbers, ids 0 / 255) and by
direct construction; each is saved, loaded into an empty registry and compared structurally.  A
legacy pymysensors-layout file produced by the harness's own translator must load to the same
registry as its native equivalent.
"""

from __future__ import annotations

import json
import os
import shutil

from .. import gens, histories
from ..ctx import scratch_dir
from ..harness import VERSIONS, Stepper, new_gateway
from ..harness import run as arun
from ..reach import Reach

LEVEL = "exploration"
SHARDS = {"quick": 6, "thorough": 16}
RULE = ("registries reached by seeded random histories of 10-150 received lines (ids {0,1,2,7,254,255}, children {0,1,254}, "
        "types incl. 0, negative and 30-digit numbers, payload pool with empty/non-ASCII/';'/boundary battery values) on all 5 "
        "versions, snapshotted at several points, plus directly constructed registries; each saved to a real file and "
        "loaded back, natively and through the legacy-layout translator; distinct = distinct registry snapshot; "
        "non-trivial = registry with at least one node")
ASSUMES = ["directly constructed registries only use field values messages can produce (battery 0-100)",
           "legacy layout has no sleeping flag: its native equivalent has sleeping = False"]
ANCHORS = ["aiomysensors.persistence:Persistence.save", "aiomysensors.persistence:Persistence.load",
           "aiomysensors.model.node:NodeSchema.make_node", "aiomysensors.model.node:NodeSchema.handle_compatibility",
           "aiomysensors.model.node:ChildSchema.handle_compatibility"]


def snap(nodes: dict) -> dict:
    out = {}
    for key, node in nodes.items():
        out[key] = {
            "node_id": node.node_id, "node_type": node.node_type, "protocol_version": node.protocol_version,
            "sketch_name": node.sketch_name, "sketch_version": node.sketch_version, "battery_level": node.battery_level,
            "heartbeat": node.heartbeat, "sleeping": node.sleeping,
            "children": {cid: {"child_id": ch.child_id, "child_type": ch.child_type, "description": ch.description,
                               "values": dict(ch.values)} for cid, ch in node.children.items()},
        }
    return out


def typed(obj):
    """Structure with value types, so 1 != '1' != True."""
    if isinstance(obj, dict):
        return {(type(k).__name__, k): typed(v) for k, v in obj.items()}
    return (type(obj).__name__, obj)


def first_difference(a: dict, b: dict, path: str = "") -> str | None:
    if set(a) != set(b):
        return f"{path}: keys {sorted(map(repr, a))} vs {sorted(map(repr, b))}"
    for key in a:
        x, y = a[key], b[key]
        if isinstance(x, dict) and isinstance(y, dict):
            diff = first_difference(x, y, f"{path}/{key[1]}")
            if diff:
                return diff
        elif x != y:
            return f"{path}/{key[1]}: {x!r:.80} vs {y!r:.80}"
    return None


def to_legacy(native_text: str, rng) -> str:
    data = json.loads(native_text)
    out = {}
    for key, node in data.items():
        legacy = {
            "sensor_id": node["node_id"], "children": {}, "type": node["node_type"],
            "sketch_name": node["sketch_name"], "sketch_version": node["sketch_version"],
            "battery_level": node["battery_level"], "protocol_version": node["protocol_version"],
            "heartbeat": node["heartbeat"],
        }
        if node["node_type"] == 18 and rng.random() < 0.5:
            legacy["type"] = None
        if node["sketch_name"] == "" and rng.random() < 0.5:
            legacy["sketch_name"] = None
        if node["sketch_version"] == "" and rng.random() < 0.5:
            legacy["sketch_version"] = None
        for cid, child in node["children"].items():
            legacy["children"][cid] = {"id": child["child_id"], "type": child["child_type"],
                                       "description": child["description"], "values": child["values"]}
        out[key] = legacy
    return json.dumps(out)


async def roundtrip(ctx, nodes: dict, workdir: str, origin: dict) -> None:
    from aiomysensors.exceptions import AIOMySensorsError
    from aiomysensors.persistence import Persistence

    before = snap(nodes)
    canon = json.dumps(before, sort_keys=True, default=str)
    # the file name is the application's choice; a third of the registries are stored under other names
    names = ["reg.json", "reg.json", "reg.json.gz", "reg.gz", "reg", "reg.bak", "reg.pickle", "reg.yaml", "REG.JSON", "reg.json.bz2"]
    path = os.path.join(workdir, names[len(canon) % len(names)] if len(canon) % 3 == 0 else "reg.json")
    case = {"origin": origin, "registry": before, "file_name": os.path.basename(path)}
    ctx.case(canon, nontrivial=bool(before), sample={"registry": before} if len(canon) < 1500 else None)
    try:
        await Persistence(nodes, path).save()
    except Exception as exc:  # noqa: BLE001
        ctx.violation("save-raises", f"save raised {type(exc).__name__}: {exc!s:.100}", case)
        return
    loaded: dict = {}
    ctx.clause("native-roundtrip")
    try:
        await Persistence(loaded, path).load()
    except Exception as exc:  # noqa: BLE001
        key = "saved-file-rejected-by-load"
        if "battery" in str(exc):
            key = "battery-unloadable"
        ctx.violation(key, f"load of a file written by save raised {type(exc).__name__}: {exc!s:.160}", case)
        return
    diff = first_difference(typed(before), typed(snap(loaded)))
    if diff:
        ctx.violation("roundtrip-differs", f"registry after save+load differs at {diff}", case)
        return
    # a second load of the same file gives an INDEPENDENT registry: mutating one must not show in the other; this one goes
    # through load(path) of a Persistence object configured for ANOTHER file (import of a saved registry)
    ctx.clause("loads-are-independent")
    second: dict = {}
    elsewhere = os.path.join(workdir, "elsewhere.json")
    if os.path.exists(elsewhere):
        os.unlink(elsewhere)
    try:
        await Persistence(second, elsewhere).load(path)
        ctx.clause("load-explicit-path")
        diff = first_difference(typed(before), typed(snap(second)))
        if diff:
            ctx.violation("explicit-path-not-loaded", f"Persistence(nodes, other_file).load(saved_file) does not give the "
                                                      f"saved registry (differs at {diff})", case)
            return
    except Exception as exc:  # noqa: BLE001
        ctx.violation("second-load-raises", f"{type(exc).__name__}: {exc!s:.100}", case)
        return
    reference = typed(snap(second))
    for node in loaded.values():
        node.battery_level = (node.battery_level + 1) % 101
        node.sketch_name = node.sketch_name + "*"
        node.sleeping = not node.sleeping
        for child in node.children.values():
            child.values[987] = "mutated"
            child.description += "*"
        node.children[253] = type(next(iter(node.children.values()), None) or __import__(
            "aiomysensors.model.node", fromlist=["Child"]).Child(0, 0))(253, 1)
    diff = first_difference(reference, typed(snap(second)))
    if diff:
        ctx.violation("loaded-registries-share-state",
                      f"two loads of the same file share mutable state: changing the first loaded registry changed the second at {diff}",
                      case)
        return
    # legacy layout
    with open(path, encoding="utf-8") as fil:
        native_text = fil.read()
    legacy_path = os.path.join(workdir, "legacy.json")
    with open(legacy_path, "w", encoding="utf-8") as fil:
        fil.write(to_legacy(native_text, ctx.rng))
    legacy_loaded: dict = {}
    ctx.clause("legacy-equivalence")
    try:
        await Persistence(legacy_loaded, legacy_path).load()
    except AIOMySensorsError as exc:
        ctx.violation("legacy-file-rejected", f"legacy-layout equivalent rejected: {exc!s:.160}", case)
        return
    except Exception as exc:  # noqa: BLE001
        ctx.violation("legacy-file-foreign-exception", f"{type(exc).__name__}: {exc!s:.120}", case)
        return
    want = json.loads(json.dumps(before))  # deep copy through JSON loses int keys: rebuild from snapshot instead
    want = {k: {**v, "sleeping": False, "children": {c: dict(ch) for c, ch in v["children"].items()}}
            for k, v in before.items()}
    diff = first_difference(typed(want), typed(snap(legacy_loaded)))
    if diff:
        ctx.violation("legacy-load-differs", f"legacy layout loads differently from its native equivalent at {diff}", case)


async def history_registries(ctx, workdir: str, version: str | None, length: int, seed_tag: int) -> None:
    rng = ctx.rng
    gateway, transport = new_gateway(version)
    stepper = Stepper(gateway, transport)
    gen = histories.HistoryGen(rng, version)
    gen.wide = seed_tag % 2 == 1
    lines = []
    for i in range(length):
        line = gen.rx_line()
        if rng.random() < 0.15:
            head, _, _ = line.rpartition(";")
            line = head + ";" + rng.choice(gens.NUMBER_PAYLOADS[:30] + ["åäö", "", "日本", "x" * 300])
        lines.append(line)
        await stepper.rx(line + "\n")
        transport.take_writes()
        if i % 25 == 24 or i == length - 1:
            await roundtrip(ctx, gateway.nodes, workdir, {"kind": "history", "version": version, "lines": list(lines)})
    await stepper.close()


async def retry_after_failed_save(ctx, nodes: dict, workdir: str, index: int) -> None:
    """One Persistence object: a save fails (directory temporarily missing), the SAME registry is saved again once the
    directory is back; the file must then hold the registry (also when an older file was there before)."""
    from aiomysensors.exceptions import PersistenceWriteError
    from aiomysensors.model.node import Node
    from aiomysensors.persistence import Persistence

    sub = os.path.join(workdir, f"sub{index}")
    hidden = sub + ".away"
    shutil.rmtree(sub, ignore_errors=True)
    shutil.rmtree(hidden, ignore_errors=True)
    os.makedirs(sub)
    path = os.path.join(sub, "reg.json")
    case = {"origin": {"kind": "retry-after-failed-save", "index": index}, "registry": snap(nodes)}
    persistence = Persistence(nodes, path)
    variant = index % 3
    if variant == 1:  # an older file exists
        await Persistence({250: Node(250, 17, "1.0")}, path).save()
    if variant == 2:  # a first successful save of other content through the same object
        await persistence.save()
        nodes[251] = Node(251, 17, "2.0", sketch_name="added later")
    os.rename(sub, hidden)
    ctx.clause("failed-save-reported")
    try:
        await persistence.save()
    except PersistenceWriteError:
        pass
    except Exception as exc:  # noqa: BLE001
        ctx.violation("save-failure-wrong-error", f"save into a missing directory raised {type(exc).__name__}", case)
    else:
        ctx.violation("save-failure-not-reported", "save into a missing directory returned normally", case)
    os.rename(hidden, sub)
    try:
        await persistence.save()
    except Exception as exc:  # noqa: BLE001
        ctx.violation("save-raises", f"retry of the save raised {type(exc).__name__}: {exc!s:.80}", case)
        return
    loaded: dict = {}
    ctx.clause("retry-after-failed-save")
    try:
        await Persistence(loaded, path).load()
    except Exception as exc:  # noqa: BLE001
        ctx.violation("saved-file-rejected-by-load", f"after the retried save load raised {type(exc).__name__}: {exc!s:.80}", case)
        return
    diff = first_difference(typed(snap(nodes)), typed(snap(loaded)))
    if diff or not os.path.exists(path):
        ctx.violation("retried-save-did-not-write", f"after a failed save and a successful retry of the same registry the file "
                                                    f"does not hold it (differs at {diff})", case)
    ctx.case(("retry", index, json.dumps(snap(nodes), sort_keys=True, default=str)), sample=None)


def overlapping_saves(ctx, nodes: dict, workdir: str, index: int, yields: int, grow: int) -> None:
    """save() is called again while an earlier save() of the same Persistence object is still in flight (the application
    saves after a change while the periodic save is running), the registry having GROWN in between.  Both calls return
    normally, so afterwards the file must load to the registry as it was when the LAST call was made.  Run on the virtual
    loop with an inline executor: every file operation completes in program order, so the outcome is a function of the
    code, not of thread timing."""
    from aiomysensors.model.node import Child, Node
    from aiomysensors.persistence import Persistence

    from ..vloop import run_virtual

    path = os.path.join(workdir, f"overlap{index}.json")
    case = {"origin": {"kind": "overlapping-saves", "index": index, "yields": yields, "grow": grow}, "registry": snap(nodes)}
    state: dict = {}

    async def scenario() -> None:
        import asyncio

        persistence = Persistence(nodes, path)
        first = asyncio.ensure_future(persistence.save())
        for _ in range(yields):
            await asyncio.sleep(0)
        state["first_done_early"] = first.done()
        # the file's keys are sorted as text: new ids that sort FIRST change the document from its beginning, so two writers
        # working on different snapshots disagree about (almost) every byte
        free = sorted((n for n in range(1, 255) if n not in nodes), key=str)
        for k in range(grow):
            nid = free[k] if index % 2 == 0 else free[(index * 7 + k * 13) % len(free)]
            nodes[nid] = Node(nid, 17, "2.1", children={0: Child(0, 6, description=f"added {k}", values={0: "20.5"})},
                              sketch_name=f"grown while saving {k}")
        state["want"] = typed(snap(nodes))
        await persistence.save()
        await first

    try:
        result, _loop = run_virtual(scenario)
    except Exception as exc:  # noqa: BLE001
        ctx.violation("save-raises", f"overlapping saves raised {type(exc).__name__}: {exc!s:.100}", case)
        return
    if isinstance(result, BaseException):
        ctx.inconclusive.append(f"overlapping-saves scenario stopped: {result!r:.100}")
        return
    ctx.case(("overlap", index, yields, grow, json.dumps(case["registry"], sort_keys=True, default=str)), sample=None)
    ctx.obs("overlap:first-save-in-flight" if not state["first_done_early"] else "overlap:first-save-finished-before-second")
    ctx.clause("overlapping-saves")
    loaded: dict = {}

    async def load() -> None:
        await Persistence(loaded, path).load()

    try:
        arun(load())
    except Exception as exc:  # noqa: BLE001
        ctx.violation("overlapping-saves-garble-file", f"two overlapping saves (second {yields} loop iterations after the first, "
                                                        f"{grow} nodes added in between) left a file load rejects: "
                                                        f"{type(exc).__name__}: {exc!s:.100}", case)
        return
    diff = first_difference(state["want"], typed(snap(loaded)))
    if diff:
        ctx.violation("overlapped-save-not-written", f"a save() called {yields} loop iterations into an earlier save returned "
                                                      f"normally but the file does not hold the registry it was called with "
                                                      f"(differs at {diff})", case)


def queued_saves_case(ctx, nodes: dict, workdir: str, index: int, n_saves: int, cancel: list[int]) -> None:
    """Three or more save() calls in flight on one Persistence object, the registry growing before each; some of the later
    ones are cancelled while they still wait their turn (a wait_for around save expiring).  Every save that RETURNED
    normally was called with a registry the file must contain afterwards (the file holds the registry as of the last
    write, which is at least what the last normally returned save was called with, and nothing that never existed)."""
    from aiomysensors.model.node import Node
    from aiomysensors.persistence import Persistence

    from ..vloop import run_virtual

    path = os.path.join(workdir, f"queued{index}.json")
    case = {"origin": {"kind": "queued-saves", "index": index, "saves": n_saves, "cancel": cancel}, "registry": snap(nodes)}
    state: dict = {"called_with": {}, "returned": []}

    async def scenario() -> None:
        import asyncio

        persistence = Persistence(nodes, path)
        free = sorted((n for n in range(1, 255) if n not in nodes), key=str)
        tasks = []
        for k in range(n_saves):
            nid = free[k] if index % 2 == 0 else free[(index * 5 + k * 11) % len(free)]
            nodes[nid] = Node(nid, 17, "2.2", sketch_name=f"before save {k}")
            state["called_with"][k] = set(nodes)
            tasks.append(asyncio.ensure_future(persistence.save()))
            if k == 0:
                await asyncio.sleep(0)  # the first save is inside its file operations when the others queue up
        await asyncio.sleep(0)
        for k in cancel:
            tasks[k].cancel()
        results = await asyncio.gather(*tasks, return_exceptions=True)
        state["returned"] = [k for k, r in enumerate(results) if r is None]
        state["errors"] = [f"{k}:{type(r).__name__}" for k, r in enumerate(results)
                           if r is not None and not isinstance(r, asyncio.CancelledError)]
        state["final"] = set(nodes)

    result, _loop = run_virtual(scenario)
    if isinstance(result, BaseException):
        from ..harness import scenario_exception

        scenario_exception(ctx, result, case, "queued-saves")
        return
    ctx.case(("queued", index, n_saves, tuple(cancel), json.dumps(case["registry"], sort_keys=True, default=str)), sample=None)
    ctx.clause("queued-saves")
    if state["errors"]:
        ctx.violation("save-raises", f"queued saves raised {state['errors']}", case)
        return
    if not state["returned"]:
        ctx.obs("queued-saves:none-returned")
        return
    loaded: dict = {}

    async def load() -> None:
        await Persistence(loaded, path).load()

    try:
        arun(load())
    except Exception as exc:  # noqa: BLE001
        ctx.violation("overlapping-saves-garble-file", f"{n_saves} queued saves (cancelled {cancel}) left a file load rejects: "
                                                        f"{type(exc).__name__}: {exc!s:.100}", case)
        return
    must = state["called_with"][max(state["returned"])]
    if not must <= set(loaded) or not set(loaded) <= state["final"]:
        ctx.violation("overlapped-save-not-written", f"{n_saves} saves in flight, #{cancel} cancelled while waiting: save "
                                                      f"#{max(state['returned'])} returned normally, it was called with nodes "
                                                      f"{sorted(must)[-4:]}..., the file holds {sorted(loaded)[-4:]}...", case)


def loosely_typed_registry(rng):
    """A registry an application filled in by hand with the 'wrong' Python types in places where the file format wants
    text or integers (a float temperature as value, the protocol version as float, a numeric sketch version ...)."""
    from aiomysensors.model.node import Child, Node

    nodes = {}
    for nid in rng.sample(range(1, 200), rng.choice([1, 2, 4])):
        children = {}
        for cid in rng.sample(range(0, 50), rng.choice([1, 2])):
            children[cid] = Child(cid, rng.choice([6, "6", 0]), description=rng.choice(["d", 42, 1.5, True]),
                                  values={rng.choice([0, 2, 24]): rng.choice([21.5, 7, True, "21.5", 0, -3.25, 10**20])
                                          for _ in range(rng.choice([1, 2]))})
        nodes[nid] = Node(nid, rng.choice([17, "17", 18]), rng.choice([2.2, 2, "2.2", 1.5]), children=children,
                          sketch_name=rng.choice(["s", 5, 2.5]), sketch_version=rng.choice(["1.0", 1.0, 3]),
                          battery_level=rng.choice([55, "55", 99.0, True]), heartbeat=rng.choice([7, "7", 3.0]),
                          sleeping=rng.choice([True, False, 1, 0]))
    return nodes


async def loosely_typed_case(ctx, nodes: dict, workdir: str, index: int) -> None:
    """'A file written by save is always accepted by load' - also for registries the application filled in by hand with
    loosely typed values: whatever save wrote for them, load must take it (the values come back as the file format's
    types, so only acceptance and the keys are compared)."""
    from aiomysensors.persistence import Persistence

    path = os.path.join(workdir, "loose.json")
    def safe_repr(obj) -> str:
        try:
            return repr(obj)
        except Exception as exc:  # noqa: BLE001 - diagnostics only
            return f"<repr failed: {type(exc).__name__}>"

    case = {"origin": {"kind": "loosely-typed", "index": index}, "registry": {k: safe_repr(v) for k, v in nodes.items()}}
    ctx.case(("loose", index, repr(sorted(case["registry"].items()))), sample=None)
    try:
        await Persistence(nodes, path).save()
    except Exception as exc:  # noqa: BLE001 - the statement does not promise that such a registry can be saved
        ctx.obs("loosely-typed:save-refused:" + type(exc).__name__)
        return
    ctx.clause("loosely-typed-saved-file-loads")
    loaded: dict = {}
    try:
        await Persistence(loaded, path).load()
    except Exception as exc:  # noqa: BLE001
        ctx.violation("saved-file-rejected-by-load", f"save accepted a hand-filled registry with loosely typed values and wrote "
                                                     f"a file load rejects: {type(exc).__name__}: {exc!s:.140}", case)
        return
    if sorted(loaded) != sorted(nodes) or any(sorted(loaded[n].children) != sorted(nodes[n].children) for n in nodes):
        ctx.violation("roundtrip-differs", f"loosely typed registry: nodes / children after load {sorted(loaded)} differ from "
                                           f"{sorted(nodes)}", case)


async def big_file_case(ctx, workdir: str, size_bytes: int) -> None:
    """A registry whose file is at least size_bytes long (long value payloads are legal: a payload has no length limit):
    save writes it, so load must take it.  Compared by shape and payload lengths (the typed comparison of the small cases
    would only cost time here)."""
    from aiomysensors.model.node import Child, Node
    from aiomysensors.persistence import Persistence

    chunk = min(1 << 20, max(1024, size_bytes // 8))
    nodes: dict = {}
    total = 0
    nid = 1
    while total < size_bytes + chunk:
        children = {}
        for cid in range(0, 16):
            children[cid] = Child(cid, 6, description="big", values={0: "x" * chunk})
            total += chunk
            if total >= size_bytes + chunk:
                break
        nodes[nid] = Node(nid, 17, "2.2", children=children)
        nid += 1
    path = os.path.join(workdir, "bigfile.json")
    case = {"origin": {"kind": "big-file", "size_bytes": size_bytes}, "registry": {"nodes": len(nodes)}}
    ctx.case(("big-file", size_bytes), sample=case)
    try:
        await Persistence(nodes, path).save()
    except Exception as exc:  # noqa: BLE001
        ctx.violation("save-raises", f"save of a {size_bytes}-byte registry raised {type(exc).__name__}: {exc!s:.100}", case)
        return
    ctx.obs("big-file-bytes", os.path.getsize(path))
    ctx.clause("big-file-roundtrip")
    loaded: dict = {}
    try:
        await Persistence(loaded, path).load()
    except Exception as exc:  # noqa: BLE001
        ctx.violation("saved-file-rejected-by-load", f"a file of {os.path.getsize(path)} bytes written by save is rejected by "
                                                     f"load: {type(exc).__name__}: {exc!s:.120}", case)
        os.unlink(path)
        return
    os.unlink(path)
    shape = {n: {c: {t: len(v) for t, v in ch.values.items()} for c, ch in node.children.items()} for n, node in nodes.items()}
    got = {n: {c: {t: len(v) for t, v in ch.values.items()} for c, ch in node.children.items()} for n, node in loaded.items()}
    if shape != got:
        ctx.violation("roundtrip-differs", f"{size_bytes}-byte registry: shape after load differs", case)


async def path_spelling_case(ctx, nodes: dict, workdir: str, spelling: str) -> None:
    """The persistence path is the application's string: relative, with '~', '$VAR', '..', blanks, non-ASCII.  Whatever
    save makes of it, load - also from a fresh Persistence object given the same string - must read the same file."""
    from aiomysensors.persistence import Persistence

    case = {"origin": {"kind": "path-spelling", "spelling": spelling}, "registry": snap(nodes)}
    base = os.path.join(workdir, "paths")
    shutil.rmtree(base, ignore_errors=True)
    os.makedirs(os.path.join(base, "home"))
    old_cwd, old_home = os.getcwd(), os.environ.get("HOME")
    os.chdir(base)
    os.environ["HOME"] = os.path.join(base, "home")
    try:
        directory = os.path.dirname(spelling)
        if directory:
            os.makedirs(directory, exist_ok=True)  # the directory the literal string names, relative to the cwd
        before = typed(snap(nodes))
        ctx.case(("path", spelling, json.dumps(snap(nodes), sort_keys=True, default=str)), sample=None)
        try:
            await Persistence(nodes, spelling).save()
        except Exception as exc:  # noqa: BLE001
            ctx.obs("path-spelling:save-refused:" + type(exc).__name__)
            return
        ctx.clause("path-spelling-roundtrip")
        loaded: dict = {}
        try:
            await Persistence(loaded, spelling).load()
        except Exception as exc:  # noqa: BLE001
            ctx.violation("saved-file-rejected-by-load", f"path {spelling!r}: load after save raised {type(exc).__name__}: "
                                                         f"{exc!s:.100}", case)
            return
        diff = first_difference(before, typed(snap(loaded)))
        if diff:
            ctx.violation("roundtrip-differs", f"path {spelling!r}: a fresh Persistence object given the same path string does "
                                               f"not load what save wrote (differs at {diff})", case)
    finally:
        os.chdir(old_cwd)
        if old_home is None:
            os.environ.pop("HOME", None)
        else:
            os.environ["HOME"] = old_home
        shutil.rmtree(base, ignore_errors=True)


async def same_object_reload_case(ctx, nodes: dict, workdir: str, index: int, mutation: str) -> None:
    """save, then the application changes the registry (clears it, drops a node, edits values), then load() through the SAME
    Persistence object: every node the file holds is in the registry again as it was saved (load reads the file, whatever
    the object remembers about it)."""
    from aiomysensors.persistence import Persistence

    case = {"origin": {"kind": "same-object-reload", "index": index, "mutation": mutation}, "registry": snap(nodes)}
    path = os.path.join(workdir, f"reload-{index}.json")
    if os.path.exists(path):
        os.unlink(path)
    persistence = Persistence(nodes, path)
    ctx.case(("same-object-reload", mutation, json.dumps(snap(nodes), sort_keys=True, default=str)), sample=None)
    try:
        if index % 2:
            await persistence.load()  # file missing: creates it
        await persistence.save()
        saved = typed(snap(nodes))
        victim = sorted(nodes)[index % len(nodes)]
        if mutation == "clear":
            nodes.clear()
        elif mutation == "drop-node":
            del nodes[victim]
        elif mutation == "edit-values":
            node = nodes[victim]
            node.battery_level = (node.battery_level + 7) % 100
            node.sketch_name = "edited after the save"
            for child in node.children.values():
                child.values[2] = "edited"
                child.description = "edited"
        elif mutation == "drop-children":
            nodes[victim].children.clear()
        await persistence.load()
    except Exception as exc:  # noqa: BLE001
        ctx.violation("saved-file-rejected-by-load", f"save / change ({mutation}) / load through one Persistence object raised "
                                                     f"{type(exc).__name__}: {exc!s:.100}", case)
        return
    finally:
        if os.path.exists(path):
            os.unlink(path)
    ctx.clause("same-object-reload")
    after = typed(snap(nodes))
    for node_id, want in saved.items():
        diff = first_difference({node_id: want}, {node_id: after.get(node_id)}) if node_id in after else "node missing"
        if diff:
            ctx.violation("roundtrip-differs", f"save, registry changed ({mutation}), load through the SAME Persistence object: "
                                               f"node {node_id} is not as saved ({diff})", case)
            return


async def exact_size_case(ctx, workdir: str, target: int) -> None:
    """Documents of an exact byte size (chunk / buffer boundaries of the writer: k x 4 KiB ... 1 MiB and k x every
    byte-count-like numeric constant of the code, each -1 / 0 / +1): what save writes, load accepts and returns."""
    from aiomysensors.model.node import Child, Node
    from aiomysensors.persistence import Persistence

    case = {"origin": {"kind": "exact-size", "target": target}}
    path = os.path.join(workdir, f"exact-{target}.json")
    nodes = {n: Node(n, 17, "2.2", children={c: Child(c, 6, description=f"child {c}", values={0: "21.5", 1: "40"})
                                             for c in range(3)}, sketch_name="sized", sketch_version="1.0")
             for n in range(1, 4)}
    persistence = Persistence(nodes, path)
    try:
        await persistence.save()
        size = os.path.getsize(path)
        if size > target:
            ctx.obs("exact-size:target-below-minimal-document")
            return
        nodes[1].children[0].description = "d" * (target - size + len(nodes[1].children[0].description))
        await persistence.save()
        size = os.path.getsize(path)
        ctx.case(("exact-size", target), sample=case)
        if size != target:
            ctx.obs("exact-size:size-not-reached")  # another encoding of the padding: still a valid round trip below
        else:
            ctx.clause("exact-size-roundtrip")
        before = typed(snap(nodes))
        loaded: dict = {}
        try:
            await Persistence(loaded, path).load()
        except Exception as exc:  # noqa: BLE001
            ctx.violation("saved-file-rejected-by-load", f"a document of {size} bytes written by save was rejected by load: "
                                                         f"{type(exc).__name__}: {exc!s:.100}", case)
            return
        diff = first_difference(before, typed(snap(loaded)))
        if diff:
            ctx.violation("roundtrip-differs", f"document of {size} bytes: loaded registry differs at {diff}", case)
    finally:
        if os.path.exists(path):
            os.unlink(path)


async def path_reassigned_case(ctx, nodes: dict, workdir: str, index: int) -> None:
    """`path` is a public field of Persistence: an application that points the object at another file (a backup copy, a
    new location) and saves gets THAT file written - a fresh object given the new path loads the registry."""
    from aiomysensors.persistence import Persistence

    case = {"origin": {"kind": "path-reassigned", "index": index}, "registry": snap(nodes)}
    first = os.path.join(workdir, f"first-{index}.json")
    second = os.path.join(workdir, f"second-{index}.json")
    for path in (first, second):
        if os.path.exists(path):
            os.unlink(path)
    persistence = Persistence(nodes, first)
    before = typed(snap(nodes))
    ctx.case(("path-reassigned", index, json.dumps(snap(nodes), sort_keys=True, default=str)), sample=None)
    try:
        if index % 2:
            await persistence.save()
        persistence.path = second
        await persistence.save()
    except Exception as exc:  # noqa: BLE001
        ctx.violation("save-raised", f"saving after the path was re-assigned raised {type(exc).__name__}: {exc!s:.100}", case)
        return
    ctx.clause("path-reassigned-roundtrip")
    loaded: dict = {}
    try:
        await Persistence(loaded, second).load()
    except Exception as exc:  # noqa: BLE001
        ctx.violation("saved-file-rejected-by-load", f"load of the re-assigned path raised {type(exc).__name__}: {exc!s:.100}", case)
        return
    diff = first_difference(before, typed(snap(loaded)))
    if diff:
        ctx.violation("roundtrip-differs", f"save after `persistence.path = new` did not write the new file: a fresh object "
                                           f"given the new path loads something else (differs at {diff})", case)
    # ... and load() through the same object reads the file it now names
    reread: dict = {}
    persistence.nodes = reread
    try:
        await persistence.load()
    except Exception as exc:  # noqa: BLE001
        ctx.obs("path-reassigned:same-object-load-raised:" + type(exc).__name__)
        return
    finally:
        for path in (first, second):
            if os.path.exists(path):
                os.unlink(path)


PATH_SPELLINGS = ["nodes.json", "./nodes.json", "sub/nodes.json", "sub/../nodes.json", "~/nodes.json", "~/mysensors/nodes.json",
                  "~nodes.json", "$HOME/nodes.json", "${HOME}/nodes.json", "%TEMP%/nodes.json", "with space/no des.json",
                  "rég/nœds.json", "nodes.json ", ".hidden", "a/b/c/d/e/nodes.json", "nodes", "-nodes.json", "file:nodes.json"]


async def gateway_roundtrip_case(ctx, nodes: dict, workdir: str, extra: dict, index: int) -> None:
    """The round trip the way an application gets it: a Gateway with a persistence file (and, if the Config has options this
    harness does not know, with those set to non-default values) is left - the final save writes the registry - and a
    second Gateway configured the same way is entered - the file is loaded.  Whatever an option does to the file's form,
    the registry comes back."""
    from aiomysensors.gateway import Config, Gateway

    from ..harness import ScriptedTransport

    path = os.path.join(workdir, f"gw-roundtrip-{index}.json")
    if os.path.exists(path):
        os.unlink(path)
    case = {"origin": {"kind": "gateway-roundtrip", "config_extra": extra, "index": index}, "registry": snap(nodes)}
    before = typed(snap(nodes))
    ctx.case(("gw-roundtrip", index, repr(sorted(extra.items())), json.dumps(snap(nodes), sort_keys=True, default=str)), sample=None)

    def make() -> "Gateway":
        return Gateway(ScriptedTransport(), Config(persistence_file=path, **extra))

    first = make()
    try:
        async with first:
            first.nodes.update(nodes)
    except Exception as exc:  # noqa: BLE001
        ctx.violation("save-raises", f"leaving a gateway context (options {extra}) raised {type(exc).__name__}: {exc!s:.100}", case)
        return
    ctx.clause("gateway-roundtrip")
    second = make()
    try:
        async with second:
            loaded = typed(snap(second.nodes))
    except Exception as exc:  # noqa: BLE001
        ctx.violation("saved-file-rejected-by-load", f"a second gateway (options {extra}) cannot enter on the file the first one "
                                                     f"left: {type(exc).__name__}: {exc!s:.140}", case)
        return
    diff = first_difference(before, loaded)
    if diff:
        ctx.violation("roundtrip-differs", f"gateway round trip with options {extra}: registry differs at {diff}", case)


def constructed(rng):
    from aiomysensors.model.node import Child, Node

    nodes = {}
    for _ in range(rng.choice([0, 1, 2, 5, 30])):
        nid = rng.choice([0, 1, 254, 255, rng.randint(0, 255)])
        children = {}
        for _ in range(rng.choice([0, 1, 3])):
            cid = rng.choice([0, 1, 254, rng.randint(0, 254)])
            values = {rng.choice([0, 2, 49, -5, 10**30, rng.randint(0, 60)]): gens.random_payload(rng)
                      for _ in range(rng.choice([0, 1, 4]))}
            children[cid] = Child(cid, rng.choice([0, 6, 38, -5, 10**30]), description=gens.random_payload(rng), values=values)
        nodes[nid] = Node(nid, rng.choice([0, 17, 18, 99, -1]), rng.choice(["2.0", "", "1.5.1", gens.random_payload(rng)]),
                          children=children, sketch_name=gens.random_payload(rng), sketch_version=rng.choice(["", "1.0", "x"]),
                          battery_level=rng.choice([0, 1, 50, 100]), heartbeat=rng.choice([0, 5, 2**40, -1]),
                          sleeping=rng.random() < 0.3)
    return nodes


def big_registry(rng, n_nodes: int, n_children: int, n_values: int):
    from aiomysensors.model.node import Child, Node

    nodes = {}
    for nid in rng.sample(range(0, 256), n_nodes):
        children = {cid: Child(cid, rng.randint(0, 39), description=f"child {cid} of {nid} " + "d" * rng.randint(0, 40),
                               values={vt: gens.random_payload(rng) for vt in rng.sample(range(0, 57), n_values)})
                    for cid in rng.sample(range(0, 255), n_children)}
        nodes[nid] = Node(nid, rng.choice([17, 18]), "2.3.2", children=children, sketch_name=f"sketch {nid}",
                          sketch_version="1.0", battery_level=nid % 101, heartbeat=nid * 7, sleeping=bool(nid % 2))
    return nodes


def run_case(ctx, case: dict) -> None:
    workdir = str(scratch_dir("c13"))
    try:
        origin = case["origin"]
        if origin["kind"] == "history":
            async def replay() -> None:
                gateway, transport = new_gateway(origin["version"])
                stepper = Stepper(gateway, transport)
                for line in origin["lines"]:
                    await stepper.rx(line + "\n")
                await stepper.close()
                await roundtrip(ctx, gateway.nodes, workdir, origin)

            arun(replay())
        else:
            ctx.inconclusive.append("constructed registries are replayed by seed only")
    finally:
        shutil.rmtree(workdir, ignore_errors=True)


def run(ctx) -> None:
    workdir = str(scratch_dir("c13"))
    rng = ctx.rng
    try:
        with Reach(ANCHORS) as reach:
            for i in range(ctx.pick(240, 16000) // ctx.shard_count):
                arun(history_registries(ctx, workdir, [None, *VERSIONS][i % 6], rng.choice([10, 50, 150]), i))
            for i in range(ctx.pick(600, 60000) // ctx.shard_count):
                arun(roundtrip(ctx, constructed(rng), workdir, {"kind": "constructed", "index": i}))
            for i in range(ctx.pick(60, 1500) // ctx.shard_count + 3):
                arun(retry_after_failed_save(ctx, constructed(rng), workdir, i))
            for i in range(ctx.pick(90, 3000) // ctx.shard_count + 2):
                nodes = constructed(rng) if i % 3 else big_registry(rng, rng.choice([20, 120]), rng.choice([2, 10]), 2)
                overlapping_saves(ctx, nodes, workdir, i, yields=i % 9, grow=rng.choice([1, 1, 2, 5]))
            for i in range(4):  # fixed: documents well above the file buffer, second save 1-4 loop iterations into the first
                if ctx.mine(i):
                    overlapping_saves(ctx, big_registry(rng, 120, 10, 2), workdir, 1000 + 2 * i, yields=1 + i, grow=1 + i % 2)
                    queued_saves_case(ctx, big_registry(rng, 100, 8, 2), workdir, 1000 + 2 * i, 3 + i % 3, [])
            for i in range(ctx.pick(60, 2000) // ctx.shard_count + 2):
                n_saves = 3 + i % 4
                cancel = [[n_saves - 1], [n_saves - 1, n_saves - 2], [], [1], list(range(2, n_saves))][i % 5]
                queued_saves_case(ctx, constructed(rng), workdir, i, n_saves, cancel)
            for i in range(ctx.pick(80, 4000) // ctx.shard_count + 2):
                arun(loosely_typed_case(ctx, loosely_typed_registry(rng), workdir, i))
            from ..harness import unknown_options

            settings = [{}] + unknown_options()
            ctx.obs("unknown-config-options", len(settings) - 1)
            for i in range(ctx.pick(40, 1200) // ctx.shard_count + 2):
                for extra in settings:
                    nodes = constructed(rng)
                    if i % 4 == 0:  # the empty-string / empty-collection corner: values "", descriptions "", versions ""
                        from aiomysensors.model.node import Child, Node

                        nodes[3] = Node(3, 17, "", children={0: Child(0, 6, description="", values={47: "", 0: "0"}),
                                                                   1: Child(1, 0)}, sketch_name="", sketch_version="")
                    arun(gateway_roundtrip_case(ctx, nodes, workdir, extra, i))
            for i in range(6):
                if ctx.mine(i):
                    nodes = constructed(rng)
                    while not nodes:
                        nodes = constructed(rng)
                    arun(path_reassigned_case(ctx, nodes, workdir, i))
            for i, mutation in enumerate(("clear", "drop-node", "edit-values", "drop-children") * 2):
                if ctx.mine(i + 1):
                    nodes = constructed(rng)
                    while not nodes:
                        nodes = constructed(rng)
                    arun(same_object_reload_case(ctx, nodes, workdir, i, mutation))
            from .. import codedict as _codedict

            units = [4096, 8192, 16384, 32768, 65536, 1 << 20] + [int(n) for n in _codedict.novel_numbers()
                                                                  if 256 <= n <= (1 << 24) and float(n).is_integer()]
            targets = sorted({k * unit + d for unit in units for k in (1, 2, 3, 4) for d in (-1, 0, 1)
                              if k * unit <= ctx.pick(5, 70) * (1 << 20)})
            for i, target in enumerate(targets):
                if ctx.mine(i):
                    arun(exact_size_case(ctx, workdir, target))
            for i, spelling in enumerate(PATH_SPELLINGS):
                if ctx.mine(i):
                    nodes = constructed(rng)
                    while not nodes:
                        nodes = constructed(rng)
                    arun(path_spelling_case(ctx, nodes, workdir, spelling))
            # scale: whole networks (up to 256 nodes x 40 children x 20 values: files of several MB)
            # every collection filled to its maximum: all 256 node ids, all 255 child ids of a node, all value types
            sizes = [(256, 3, 2), (40, 40, 5), (3, 255, 2), (2, 255, 57)] + ([(256, 40, 20), (100, 100, 10), (256, 255, 3)]
                                                                              if not ctx.quick else [])
            for i, (n, c, v) in enumerate(sizes):
                if ctx.mine(i):
                    arun(roundtrip(ctx, big_registry(rng, n, c, v), workdir, {"kind": "constructed", "index": f"big-{n}-{c}-{v}"}))
            # file sizes: a few MB always; numeric constants of the code under test that the reference tree does not have
            # and that look like byte counts (100 kB .. 300 MB) are crossed by one byte chunk
            from .. import codedict

            file_sizes = [ctx.pick(3_000_000, 40_000_000)] + [int(n) + 1 for n in codedict.novel_numbers()
                                                              if 100_000 <= n <= 300_000_000]
            for i, size in enumerate(sorted(set(file_sizes))):
                if ctx.mine(i + 4):
                    arun(big_file_case(ctx, workdir, size))
        reach.into(ctx)
    finally:
        shutil.rmtree(workdir, ignore_errors=True)
    ctx.require("native-roundtrip", 50)
    ctx.require("legacy-equivalence", 50)
