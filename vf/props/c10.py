"""C10 - one presentation request per episode (2.x), with failing request writes.

Projection of the lockstep trace onto writes of internal type 19.  The model keeps the set of
nodes with an outstanding request; a request whose write failed (fault plan: every subset of the
first three type-19 write attempts) does not count as sent.
"""

from __future__ import annotations

import itertools

from .. import histories
from ..harness import FAULT_CLASSES, VERSIONS
from ..lscheck import replay_case, run_cases
from ..reach import Reach

LEVEL = "fault_enumeration"
SHARDS = {"quick": 8, "thorough": 16}
RULE = ("all histories of length <= 3 (thorough <= 4) over 16 symbols (set/req/child presentation/battery/sketch/stream/"
        "heartbeat/discover-response from unknown nodes U1,U2; set for unknown child on known node K; node presentation "
        "of U1/U2/K; child presentation on K; wake of K) x every subset of failing type-19 write attempts among the "
        "first three x versions 2.0/2.1/2.2, and without faults x 1.4/1.5; plus random histories of length 5-7 and 100 "
        "with 3 unknown nodes and random fault subsets; distinct = distinct (version, steps, fault set); non-trivial = "
        "at least one step rejected for a missing node/child")
ASSUMES = ["which library error surfaces when the request write fails is open (must be a library error)",
           "the gateway version is known in the fault histories, so no version query interferes"]
ANCHORS = ["aiomysensors.model.protocol.protocol_20:handle_missing_node_child",
           "aiomysensors.model.protocol.protocol_20:IncomingMessageHandler.handle_presentation"]

U1, U2, K = 5, 6, 1
SYMBOLS = [
    f"{U1};0;1;0;0;1", f"{U1};0;2;0;0;", f"{U1};0;0;0;6;d", f"{U1};255;3;0;0;50", f"{U1};255;3;0;11;n",
    f"{U1};255;4;0;0;x", f"{U1};255;3;0;22;1", f"{U1};255;3;0;21;0", f"{U2};0;1;0;0;1", f"{K};9;1;0;0;1",
    f"{U1};255;0;0;17;2.0", f"{U2};255;0;0;17;2.0", f"{K};255;0;0;17;2.0", f"{K};9;0;0;6;d", f"{K};255;3;0;22;5",
    f"{K};255;3;0;32;",
]
PRE = [["restore", K, {"type": 17, "version": "2.0", "children": {"0": [6, "t", {}]}}]]


def subsets(n: int):
    for size in range(n + 1):
        yield from itertools.combinations(range(n), size)


def cases(ctx):
    rng = ctx.rng
    max_len = ctx.pick(3, 4)
    count = 0
    for version in VERSIONS:
        fault_sets = list(subsets(3)) if version.startswith("2") else [()]
        for length in range(1, max_len + 1):
            for combo in itertools.product(SYMBOLS, repeat=length):
                if not ctx.mine():
                    continue
                for fail19 in fault_sets:
                    count += 1
                    yield {"version": version, "fail19": list(fail19), "fault_class": FAULT_CLASSES[count % len(FAULT_CLASSES)],
                           "steps": PRE + [["rx", line + "\n"] for line in combo]}
    ctx.exhaustive[f"histories-len<={max_len}-x-fault-subsets"] = count
    # "a request whose write failed does not count as sent" - however often it failed: the first N request writes fail
    # (N up to 150: retry counters, back-off, give-up thresholds), then the link works again and the next rejected message
    # must be followed by a request
    for version in VERSIONS[2:]:
        from .. import codedict

        for failures in sorted({*range(1, 34), *codedict.thresholds([64, 100, ctx.pick(128, 150)], low=2, cap=ctx.pick(300, 2000))}):
            for who in ("one-node", "two-nodes"):
                if not ctx.mine():
                    continue
                lines = []
                for i in range(failures + 3):
                    node = U1 if who == "one-node" or i % 2 == 0 else U2
                    lines.append(SYMBOLS[0].replace(f"{U1};", f"{node};", 1) if i % 3 else f"{node};255;3;0;0;50")
                lines += [f"{U1};255;0;0;17;2.0", f"{U1};7;1;0;0;1", f"{U1};7;1;0;0;1"]
                n_fail = failures if who == "one-node" else 2 * failures
                yield {"version": version, "fail19": list(range(n_fail)), "fault_class": FAULT_CLASSES[failures % len(FAULT_CLASSES)],
                       "steps": PRE + [["rx", line + "\n"] for line in lines]}
    # the session ends (normally / through a transport error raised by listen) and the application reconnects with the same
    # Gateway object while an episode is open: the request that was WRITTEN stays sent
    for version in VERSIONS[2:]:
        for how in (["reenter"], ["reenter", "transport-error"]):
            for k in (1, 2, 5):
                if not ctx.mine():
                    continue
                lines = [SYMBOLS[0]] * k
                steps = PRE + [["rx", line + "\n"] for line in lines] + [how] + \
                    [["rx", SYMBOLS[0] + "\n"], ["rx", f"{U1};255;3;0;0;9\n"], how, ["rx", SYMBOLS[0] + "\n"],
                     ["rx", f"{U1};255;0;0;17;2.0\n"], ["rx", f"{U1};7;1;0;0;1\n"], how, ["rx", f"{U1};7;1;0;0;1\n"]]
                yield {"version": version, "steps": steps}
    # long episodes: one node keeps sending rejected messages (several kinds) and never presents itself - ONE request, however
    # many messages follow (counters that start a retry after the n-th message: n from the usual round numbers and from
    # the numeric constants of the code under test, vf.codedict)
    for version in VERSIONS[2:]:
        for length in codedict.thresholds([300, 1100], low=50, cap=ctx.pick(2600, 12000)):
            if length % 2 and length > 400 and not ctx.mine():
                continue
            if length <= 400 and not ctx.mine():
                continue
            lines = [SYMBOLS[0] if i % 3 else f"{U1};255;3;0;0;{i % 100}" for i in range(length + 2)]
            yield {"version": version, "steps": PRE + [["rx", line + "\n"] for line in lines]}
    # every message kind of the active protocol from an unknown node (all internal / stream / presentation / value type
    # numbers incl. the ones only the newest protocol has and out-of-range ones), twice, then after it presented itself:
    # WHICH kinds are rejected for a missing node is the implementation's business, but every such rejection must ask
    from .. import spec

    for version in VERSIONS:
        proto = spec.pmap(version)
        kinds = [f"{U1};255;3;{a};{t};{p}" for t in range(-1, spec.INTERNAL_MAX[proto] + 4) for a, p in ((0, "1"), (1, ""))]
        kinds += [f"{U1};255;4;0;{t};x" for t in range(0, 8)]
        kinds += [f"{U1};{c};{cmd};0;{t};v" for cmd in (1, 2) for c in (0, 254) for t in (0, 2, 56, 99)]
        kinds += [f"{U1};3;0;0;{t};d" for t in (0, 6, 39, 99)]
        for i, kind in enumerate(kinds):
            if ctx.mine():
                other = kinds[(i * 7 + 3) % len(kinds)].replace(f"{U1};", f"{U2};", 1)
                yield {"version": version, "steps": PRE + [["rx", x + "\n"] for x in (
                    kind, kind, other, f"{U1};255;0;0;17;2.0", kind, kind)]}
    for i in range(ctx.pick(2000, 60000) // ctx.shard_count):
        version = VERSIONS[2 + i % 3] if i % 7 else VERSIONS[i % 2]
        length = rng.choice([5, 6, 7, 7, 100])
        lines = []
        for _ in range(length):
            line = rng.choice(SYMBOLS)
            if rng.random() < 0.3:
                line = line.replace(f"{U1};", f"{rng.choice([U1, U2, 9])};", 1)
            lines.append(line)
        fail19 = sorted(rng.sample(range(8), rng.choice([0, 1, 2, 3]))) if version.startswith("2") else []
        yield {"version": version, "fail19": fail19, "fault_class": rng.choice(FAULT_CLASSES),
               "steps": PRE + [["rx", line + "\n"] for line in lines]}
    # scale: many nodes with open episodes at once (requests for different nodes are independent)
    for version in VERSIONS:
        for n in (5, 17, 40, ctx.pick(120, 250)):
            for fail19 in ([], [0], [3, 16]):
                if ctx.mine():
                    yield {"version": version, "fail19": fail19 if version.startswith("2") else [],
                           "steps": PRE + histories.wide_unknown_nodes(n)}
    for i in range(ctx.pick(300, 12000) // ctx.shard_count):
        version = [None, *VERSIONS][i % 6]
        yield {"version": version, "steps": PRE + histories.rich_history(rng, version, rng.choice([20, 60, 150]))}
    # an application that sends a presentation request itself does not open an episode
    for version in ("2.0", "2.1", "2.2"):
        for buffered in (True, False):
            for lines in ([f"{U1};0;1;0;0;1"], [f"{U1};0;1;0;0;1", f"{U1};255;3;0;0;5"], [f"{K};9;1;0;0;1", f"{K};9;2;0;0;"]):
                if ctx.mine():
                    target = U1 if lines[0].startswith(f"{U1};") else K
                    yield {"version": version, "steps": PRE + [["tx", [target, 255, 3, 0, 19, ""], buffered]]
                           + [["rx", line + "\n"] for line in lines] + [["tx", [target, 255, 3, 0, 19, ""], buffered]]
                           + [["rx", line + "\n"] for line in lines]}
    # version unknown / changing: requests follow the protocol in force
    for i in range(ctx.pick(100, 3000) // ctx.shard_count):
        gen = histories.HistoryGen(rng, None)
        yield {"version": None, "steps": PRE + gen.history(rng.choice([10, 40]), version_reports=0.15)}


def run_case(ctx, case: dict) -> None:
    replay_case(ctx, case)


def run(ctx) -> None:
    with Reach(ANCHORS) as reach:
        run_cases(ctx, cases(ctx))
    reach.into(ctx)
    ctx.require("presreq", 1000)
