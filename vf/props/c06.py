"""C06 - writes are exactly the specified reactions, addressed to the asker, unbuffered.

Projection of the lockstep trace: after removing presentation requests (C10) and the release of
parked commands at a wake (C07), the multiset of lines written during each received line must
equal the model's reaction table.  Time replies are bracketed by the local epoch seconds taken
before/after the step (no wall-clock deadline); the workload is repeated under several time zones
via time.tzset().
"""

from __future__ import annotations

import itertools
import os
import time

from .. import histories
from ..harness import VERSIONS
from ..lscheck import replay_case, run_cases
from ..reach import Reach

LEVEL = "exploration"
SHARDS = {"quick": 6, "thorough": 16}
RULE = ("all single-step (state x message) pairs: version {unknown,1.4,1.5,2.0,2.1,2.2} x metric/imperial x requester "
        "sleeping or not x stored value present/absent x reboot flag x 20 request/traffic messages, under 6 time zones; "
        "plus seeded random histories biased to requests; distinct = distinct (tz, version, metric, steps); non-trivial "
        "= the history contains at least one step with a write or an error")
ASSUMES = ["order of writes inside one step is not compared (multiset)", "TZ database available for named zones; POSIX "
           "TZ strings are used as well"]
ANCHORS = ["aiomysensors.model.protocol.protocol_14:IncomingMessageHandler.handle_i_id_request",
           "aiomysensors.model.protocol.protocol_14:IncomingMessageHandler.handle_i_config",
           "aiomysensors.model.protocol.protocol_14:IncomingMessageHandler.handle_i_time",
           "aiomysensors.model.protocol.protocol_14:IncomingMessageHandler.handle_req",
           "aiomysensors.model.protocol.protocol_14:IncomingMessageHandler.handle_set",
           "aiomysensors.model.protocol.protocol_20:IncomingMessageHandler.handle_i_gateway_ready",
           "aiomysensors.model.protocol.protocol_14:handle_missing_protocol_version"]
ZONES = ["UTC", "Europe/Stockholm", "America/St_Johns", "Asia/Kolkata", "XXX-13:45", "XXX+11"]

MESSAGES = [
    "255;255;3;0;3;", "1;255;3;0;3;", "255;7;3;0;3;x", "1;255;3;0;6;", "1;255;3;1;6;0", "1;255;3;0;1;",
    "0;255;3;0;1;", "1;0;2;0;0;", "1;0;2;0;2;", "1;0;1;0;0;21", "0;255;3;0;14;Gateway startup complete.",
    "0;255;3;0;9;log text", "0;255;3;0;2;2.1.0", "0;255;3;0;2;", "1;255;0;0;17;2.2.0", "9;0;1;0;0;1", "9;255;3;0;0;50",
    "1;5;2;0;0;", "1;255;3;0;0;55", "1;255;3;0;11;name", "1;255;4;0;0;fw", "1;255;3;0;21;0", "1;255;3;0;13;",
]


def prefix(version, sleeping: bool, stored: bool, reboot: bool) -> list[list]:
    steps: list[list] = [["restore", 1, {"type": 17, "version": "2.0", "sleeping": sleeping,
                                         "children": {"0": [6, "temp", {"0": "20.5"} if stored else {}]}}]]
    if reboot:
        steps.append(["flag", 1, "reboot", True])
    return steps


def cases(ctx, zone: str):
    rng = ctx.rng
    count = 0
    for version, metric, sleeping, stored, reboot, message in itertools.product(
            [None, *VERSIONS], (True, False), (False, True), (False, True), (False, True), MESSAGES):
        if not ctx.mine():
            continue
        count += 1
        yield {"tz": zone, "version": version, "metric": metric,
               "steps": prefix(version, sleeping, stored, reboot) + [["rx", message + "\n"]]}
    ctx.exhaustive["single-step-state-x-message"] = ctx.exhaustive.get("single-step-state-x-message", 0) + count
    # "mode" messages: any message kind the gateway or a node can send (every internal type number of the protocol with
    # payloads 0 / 1 / text, from node 0 and from a known node; stream types; acked variants) may switch something inside
    # the controller - afterwards every specified reaction must still come: id, config, time, value, reboot
    from .. import spec

    probes = ["255;255;3;0;3;", "1;255;3;0;6;", "1;255;3;0;1;", "1;0;2;0;0;", "1;0;1;0;0;22", "9;255;3;0;3;"]
    if zone == ZONES[0] or zone == "UTC":
        for version in VERSIONS:
            proto = spec.pmap(version)
            for t in range(0, spec.INTERNAL_MAX[proto] + 2):
                if t == spec.I_VERSION:
                    continue
                for sender in (0, 1):
                    for payload, ack in (("0", 0), ("1", 0), ("off", 1), ("", 0)):
                        if not ctx.mine():
                            continue
                        steps = prefix(version, False, True, True) + [["restore", 0, {"type": 18, "version": version, "children": {}}]]
                        steps.append(["rx", f"{sender};255;3;{ack};{t};{payload}\n"])
                        steps += [["rx", probe + "\n"] for probe in probes]
                        yield {"tz": zone, "version": version, "steps": steps}
    # value requests of every type on children of every type with NOTHING stored (nothing may be written), then with values
    if zone == ZONES[0] or zone == "UTC":
        for version in [None, *VERSIONS]:
            for start in range(0, 40, 8):
                if ctx.mine():
                    yield {"tz": zone, "version": version,
                           "steps": histories.type_table_sweep(list(range(start, start + 8)), list(range(0, 57)))}
    # the gateway never tells its version: EVERY decoded message (other than log / gateway-ready) is followed by a version
    # query, also the 1 001st (flood limits); lengths from round numbers and the code's own novel numeric constants
    if zone == ZONES[0] or zone == "UTC":
        from .. import codedict

        for length in codedict.thresholds([300, 1100], low=50, cap=ctx.pick(2600, 12000)):
            if not ctx.mine():
                continue
            steps = prefix(None, False, True, False)
            for i in range(length + 2):
                steps.append(["rx", ("1;0;1;0;0;%d\n" % (i % 50)) if i % 4 else "1;255;3;0;0;77\n"])
            yield {"tz": zone, "version": None, "steps": steps}
    # id requests on registries whose highest id is near the top of the range (an id is still free / none is)
    for version, highest, request in itertools.product([None, *VERSIONS], (1, 100, 252, 253, 254, 255),
                                                       ("255;255;3;0;3;", "255;7;3;0;3;", "9;255;3;1;3;x")):
        if ctx.mine():
            yield {"tz": zone, "version": version, "steps": [
                ["restore", highest, {"type": 17, "version": "2.0", "children": {}}],
                ["rx", request + "\n"], ["rx", request + "\n"]]}
    if zone in ("UTC", "Asia/Kolkata"):
        for i in range(ctx.pick(400, 20000) // ctx.shard_count):
            version = [None, *VERSIONS][i % 6]
            yield histories.with_reply_faults(rng, {"tz": zone, "version": version, "metric": bool(i % 2),
                                                    "steps": histories.rich_history(rng, version, rng.choice([20, 60, 150]))})
    # two gateways in one process, both built without a Config as in the README; the neighbour is reconfigured (imperial,
    # other version), filled and used: the gateway under test still answers from ITS configuration, registry and buffer
    if zone == ZONES[0] or zone == "UTC":
        for version, sleeping, stored, message in itertools.product([None, *VERSIONS], (False, True), (False, True), MESSAGES):
            if ctx.mine():
                yield {"tz": zone, "version": version, "neighbour": True,
                       "steps": prefix(version, sleeping, stored, False) + [["rx", message + "\n"], ["rx", "1;255;3;0;6;\n"],
                                                                            ["rx", "1;0;2;0;0;\n"], ["rx", "1;255;3;0;22;\n"]]}
        for i in range(ctx.pick(60, 3000) // ctx.shard_count):
            version = [None, *VERSIONS][i % 6]
            yield {"tz": zone, "version": version, "neighbour": True,
                   "steps": histories.rich_history(rng, version, rng.choice([20, 60]))}
    # the registry comes from the file named in the Config, loaded at context entry (a gateway record, node 0, among the
    # nodes): what the controller may assume about the GATEWAY's version is what was set or reported in this run - with
    # no version known every decoded message is still followed by the version query (C05), each request still answered
    if zone == ZONES[0] or zone == "UTC":
        for version, gw_version, message in itertools.product([None, *VERSIONS], ("1.4", "2.0", "2.2", "2.3.2"), MESSAGES):
            if not ctx.mine():
                continue
            records = {"0": {"node_id": 0, "node_type": 18, "protocol_version": gw_version, "sketch_name": "gw",
                             "sketch_version": "1", "battery_level": 0, "heartbeat": 0, "sleeping": False, "children": {}},
                       "1": {"node_id": 1, "node_type": 17, "protocol_version": "2.0", "sketch_name": "s",
                             "sketch_version": "1", "battery_level": 5, "heartbeat": 2, "sleeping": False,
                             "children": {"0": {"child_id": 0, "child_type": 6, "description": "temp",
                                                "values": {"0": "20.5"}}}}}
            yield {"tz": zone, "version": version, "session_file": records,
                   "steps": [["rx", message + "\n"], ["rx", "1;0;1;0;0;22\n"], ["rx", "1;255;3;0;6;\n"]]}
    # the application flips the unit system on the live gateway between config requests
    for version in [None, *VERSIONS]:
        for first in (True, False):
            if ctx.mine():
                yield {"tz": zone, "version": version, "metric": first, "steps": [
                    ["rx", "1;255;3;0;6;\n"], ["config", "metric", not first], ["rx", "1;255;3;0;6;\n"],
                    ["rx", "2;255;3;1;6;x\n"], ["config", "metric", first], ["rx", "1;255;3;0;6;\n"]]}
    for i in range(ctx.pick(100, 40000) // ctx.shard_count):
        version = [None, None, *VERSIONS][i % 7]
        gen = histories.HistoryGen(rng, version)
        steps = prefix(version, bool(i % 3 == 0), True, bool(i % 5 == 0))
        gen.known[1] = {0}
        for _ in range(rng.choice([5, 20, 60])):
            roll = rng.random()
            if roll < 0.45:
                steps.append(["rx", rng.choice(MESSAGES) + "\n"])
            elif roll < 0.55:
                steps.append(gen.tx_op())
            elif roll < 0.6:
                steps.append(["flag", rng.choice([1, 2]), "reboot", rng.random() < 0.5])
            else:
                steps.append(["rx", gen.rx_line() + "\n"])
        yield {"tz": zone, "version": version, "metric": bool(i % 2), "steps": steps}


def set_zone(zone: str) -> None:
    os.environ["TZ"] = zone
    time.tzset()


def run_case(ctx, case: dict) -> None:
    set_zone(case.get("tz", "UTC"))
    replay_case(ctx, case)


def run(ctx) -> None:
    with Reach(ANCHORS) as reach:
        for zone in ZONES:
            set_zone(zone)
            offset = time.localtime().tm_gmtoff
            ctx.obs(f"tz:{zone}:utcoffset={offset}")
            run_cases(ctx, cases(ctx, zone))
        set_zone("UTC")
    reach.into(ctx)
    for clause in ("reactions", "time-reply", "id-response"):
        ctx.require(clause, 20)
