"""C02 - decoder accepts exactly the well-formed lines and decodes them literally.

Oracle: the independent recognizer vf.spec.recognize (must-accept / must-reject / either).
Rejections must be marshmallow ValidationError at MessageSchema.load and
InvalidMessageError at Gateway.listen; anything else is a violation.
"""

from __future__ import annotations

import itertools

from .. import gens, spec
from ..harness import VERSIONS, Stepper, fields_of, new_gateway, schema_for
from ..harness import run as arun
from ..reach import Reach

LEVEL = "exploration"
SHARDS = {"quick": 4, "thorough": 16}
RULE = ("all lines of 0-8 fields over a per-field alphabet of plain/boundary/negative/huge/non-numeric/empty/padded "
        "representatives with at most two (thorough: three) non-plain fields, x payload/tail variants x 5 versions, "
        "plus seeded random mutations (delete/duplicate/swap field, inject separator, truncate at every byte) of valid "
        "lines; distinct = distinct (version, line); non-trivial = every line except the canonical all-plain ones")
ASSUMES = ["lenient integer spellings Python's int() accepts (padded, signed, zero-led, underscores, non-ASCII digits) "
           "may be accepted or rejected, but if accepted must decode to int() values that satisfy all rules",
           "lines are str (byte decoding belongs to C17/C03)"]
ANCHORS = ["aiomysensors.model.message:MessageSchema.to_dict", "aiomysensors.model.message:validate_child_id",
           "aiomysensors.model.message:CommandField.validate_command", "aiomysensors.gateway:Gateway.listen"]

PLAIN = {"node": ["0", "1", "255"], "child": ["0", "7", "255"], "cmd": ["0", "1", "2", "3", "4"],
         "ack": ["0", "1"], "type": ["0", "3", "4", "6", "49", "-5", "99999999999999999999"]}
ORDER = ["node", "child", "cmd", "ack", "type"]
PAYLOADS = ["", "5", "a;b", " x", ";", "a\rb", "l1\u2028l2"]


def classify_violation(line: str, verdict: dict, outcome: tuple) -> tuple[str, str] | None:
    """Compare an observed schema outcome with the recognizer verdict."""
    kind = outcome[0]
    v = verdict["verdict"]
    if kind == "foreign":
        exc = outcome[1]
        key = "foreign-exception-" + type(exc).__name__
        if isinstance(exc, KeyError) and len(line.rstrip().split(";")) < 6:
            key = "short-line-keyerror"
        return key, f"{type(exc).__name__}({exc!s:.80}) instead of a rejection for {line!r:.100}"
    if kind == "reject":
        if v == "accept":
            return "wellformed-line-rejected", f"must-accept line rejected: {line!r:.100}"
        return None
    # accepted
    got = outcome[1]
    if v in ("reject",):
        return "illformed-line-accepted", f"must-reject line ({verdict['why']}) accepted as {got!r:.100}: {line!r:.100}"
    if v == "either-reject":
        return None
    want = verdict["fields"]
    alt = verdict.get("alt_fields")
    if got != want and got != alt:
        key = "decoded-fields-differ"
        if got[:5] == want[:5] and ";" in want[5] and want[5].startswith(got[5]):
            key = "decode-truncates-at-delimiter"
        return key, f"accepted line decodes to {got!r:.120}, spelled {want!r:.120}: {line!r:.100}"
    if any(type(x) is not int for x in got[:5]) or type(got[5]) is not str:
        return "decoded-field-types", f"decoded field types {[type(x).__name__ for x in got]}"
    return None


def schema_outcome(schema, line: str) -> tuple:
    from marshmallow import ValidationError

    try:
        message = schema.load(line)
    except ValidationError:
        return ("reject",)
    except Exception as exc:  # noqa: BLE001
        return ("foreign", exc)
    return ("accept", fields_of(message))


def check_independent_decodes(ctx, schemas, version: str, line: str) -> None:
    """'An accepted line always decodes to exactly the field values it spells' - also the second time, and also after
    the application changed the Message object it got the first time."""
    verdict = spec.recognize(line)
    if verdict["verdict"] != "accept":
        return
    case = {"kind": "independent", "version": version, "line": line}
    schema = schemas[version]
    try:
        first = schema.load(line)
        first.payload = "CHANGED BY THE APPLICATION"
        first.node_id, first.child_id, first.message_type = 200, 3, 55
        second = schema.load(line)
    except Exception as exc:  # noqa: BLE001
        ctx.violation("wellformed-line-rejected", f"{type(exc).__name__} on repeated decode of {line!r:.80}", case)
        return
    ctx.clause("repeated-decode-independent")
    if fields_of(second) != verdict["fields"]:
        ctx.violation("decoded-message-shared",
                      f"decoding {line!r:.80} a second time gives {fields_of(second)!r:.100} after the application changed the "
                      f"Message object it received the first time (spelled {verdict['fields']!r:.100})", case)


def check_schema(ctx, schemas, version: str, line: str) -> None:
    verdict = spec.recognize(line)
    case = {"kind": "schema", "version": version, "line": line}
    ctx.case((version, line), nontrivial=verdict["verdict"] != "accept" or " " in line, sample={**case, "verdict": verdict["verdict"]})
    outcome = schema_outcome(schemas[version], line)
    ctx.clause(f"schema:{verdict['verdict']}")
    ctx.obs(f"schema-outcome:{outcome[0]}")
    problem = classify_violation(line, verdict, outcome)
    if problem:
        ctx.violation(problem[0], problem[1], case)


async def gateway_case(ctx, version: str, line: str) -> None:
    """Gateway level: rejection must be InvalidMessageError with nothing written or changed."""
    from aiomysensors.exceptions import AIOMySensorsError, InvalidMessageError

    verdict = spec.recognize(line)
    case = {"kind": "gateway", "version": version, "line": line}
    gateway, transport = new_gateway(version)
    stepper = Stepper(gateway, transport)
    await stepper.rx(f"1;255;0;0;17;{version}\n")
    await stepper.rx("1;7;0;0;6;d\n")
    transport.take_writes()
    before = repr(sorted(gateway.nodes))
    kind, value = await stepper.rx(line)
    ctx.case(("g", version, line), nontrivial=True)
    ctx.clause(f"gateway:{verdict['verdict']}")
    v = verdict["verdict"]
    if kind == "error" and not isinstance(value, AIOMySensorsError):
        key = "foreign-exception-" + type(value).__name__
        if isinstance(value, KeyError) and len(line.rstrip().split(";")) < 6:
            key = "short-line-keyerror"
        ctx.violation(key, f"listen raised {type(value).__name__}({value!s:.80}) for {line!r:.100}", case)
    elif v == "reject":
        if not (kind == "error" and isinstance(value, InvalidMessageError)):
            what = "yielded" if kind == "yield" else type(value).__name__
            ctx.violation("illformed-line-accepted", f"must-reject line ({verdict['why']}) -> {what}: {line!r:.100}", case)
        elif transport.writes or repr(sorted(gateway.nodes)) != before:
            ctx.violation("rejected-line-had-effects", f"writes {transport.writes!r:.100} after rejected {line!r:.100}", case)
    elif v == "accept":
        n, c, cmd, _ack, t, _p = verdict["fields"]
        # handlers may legitimately reject the *content* of these as invalid (version, battery, heartbeat payload)
        content_checked = (cmd == 0 and c == 255 and n == 0) or (cmd == 3 and t in (0, 2, 22))
        if kind == "error" and isinstance(value, InvalidMessageError) and content_checked:
            ctx.obs("gateway-accept-content-rejected")
        elif kind == "error" and isinstance(value, InvalidMessageError):
            ctx.violation("wellformed-line-rejected", f"must-accept line rejected as invalid: {line!r:.100}", case)
        elif kind == "yield" and fields_of(value) != verdict["fields"]:
            ctx.violation("decoded-fields-differ", f"yielded {fields_of(value)!r:.120} for {line!r:.100}", case)
    await stepper.close()


def check_validate_api(ctx, schemas, version: str, line: str) -> None:
    """The decoder's other entry point: Schema.validate(line) reports errors without building a message.  It must agree
    with load(): no errors exactly for the lines load accepts, and only ever a ValidationError / an error report."""
    schema = schemas[version]
    validate = getattr(schema, "validate", None)
    if validate is None:
        return
    case = {"kind": "validate-api", "version": version, "line": line}
    try:
        schema.load(line)
        accepted = True
    except Exception:  # noqa: BLE001
        accepted = False
    ctx.clause("validate-agrees-with-load")
    try:
        errors = validate(line)
    except Exception as exc:  # noqa: BLE001
        if type(exc).__name__ != "ValidationError":
            ctx.violation("foreign-exception-" + type(exc).__name__, f"MessageSchema.validate({line!r:.60}) raised "
                                                                     f"{type(exc).__name__}", case)
        elif accepted:
            ctx.violation("wellformed-line-rejected", f"validate() rejects {line!r:.60} which load() accepts", case)
        return
    if bool(errors) == accepted:
        ctx.violation("illformed-line-accepted" if not accepted else "wellformed-line-rejected",
                      f"MessageSchema.validate({line!r:.60}) reports {errors!r:.80} but load() "
                      f"{'accepts' if accepted else 'rejects'} the line", case)


def run_case(ctx, case: dict) -> None:
    if case["kind"] == "validate-api":
        check_validate_api(ctx, {case["version"]: schema_for(case["version"])}, case["version"], case["line"])
        return
    if case["kind"] == "independent":
        for via_context in (False, True):  # both ways of configuring the decoder (the run used one per shard)
            check_independent_decodes(ctx, {case["version"]: schema_for(case["version"], via_context=via_context)},
                                      case["version"], case["line"])
    elif case["kind"] == "schema":
        for via_context in (False, True):
            check_schema(ctx, {case["version"]: schema_for(case["version"], via_context=via_context)}, case["version"],
                         case["line"])
    else:
        arun(gateway_case(ctx, case["version"], case["line"]))


def enumerate_lines(max_nonplain: int):
    """Lines with 0-8 fields; at most max_nonplain non-plain numeric fields."""
    # short and long lines
    for nfields in range(0, 6):
        for combo in itertools.product(*[PLAIN[name][:2] + gens.FIELD_ALPHABET[name][-2:] for name in ORDER[:nfields]]):
            yield ";".join(combo)
            yield ";".join(combo) + ";" if nfields == 5 else ";".join(combo) + "\n"
    nonplain = {name: [x for x in gens.FIELD_ALPHABET[name] if x not in PLAIN[name]] for name in ORDER}
    for k in range(0, max_nonplain + 1):
        for positions in itertools.combinations(range(5), k):
            pools = [nonplain[name] if i in positions else PLAIN[name] for i, name in enumerate(ORDER)]
            for combo in itertools.product(*pools):
                head = ";".join(combo)
                for payload in (PAYLOADS if k == 0 else PAYLOADS[:2] + PAYLOADS[5:6]):
                    yield head + ";" + payload
                if k <= 1:
                    yield head + ";p;q;r"  # 8 fields
                    yield head + ";5 \r\n"


def mutate(rng, line: str) -> str:
    parts = line.split(";")
    roll = rng.randint(0, 8)
    if roll == 0 and parts:
        del parts[rng.randrange(len(parts))]
    elif roll == 1:
        i = rng.randrange(len(parts))
        parts.insert(i, parts[i])
    elif roll == 2 and len(parts) > 1:
        i, j = rng.sample(range(len(parts)), 2)
        parts[i], parts[j] = parts[j], parts[i]
    elif roll == 3:
        i = rng.randrange(len(line) + 1)
        return line[:i] + ";" + line[i:]
    elif roll == 4:
        return line[: rng.randrange(len(line) + 1)]
    elif roll == 5:
        i = rng.randrange(min(5, len(parts)))
        parts[i] = rng.choice(gens.FIELD_ALPHABET[ORDER[i]] + gens.NUMBER_PAYLOADS[:20])
    elif roll == 6:
        i = rng.randrange(min(5, len(parts)))
        parts[i] = rng.choice([" ", "+", "-", "0", "_", "\t", "٣"]) + parts[i]
    elif roll == 7:
        i = rng.randrange(min(5, len(parts)))
        parts[i] = str(rng.choice([-1, 0, 1, 2, 4, 5, 254, 255, 256, 2**31, -2**63, 10**25]))
    else:
        return line + rng.choice([" ", "\n", "\r\n", "\t", " \n", "　", "\x1c", ";"])
    return ";".join(parts)


def run(ctx) -> None:
    rng = ctx.rng
    # odd shards configure their decoders through the schema context instead of set_protocol()
    schemas = {v: schema_for(v, via_context=bool(ctx.shard_index % 2)) for v in VERSIONS}
    ctx.obs("decoder-configured-via:" + ("context" if ctx.shard_index % 2 else "set_protocol"))
    with Reach(ANCHORS) as reach:
        count = 0
        lines = list(dict.fromkeys(enumerate_lines(ctx.pick(2, 3))))
        for version in VERSIONS:
            for line in lines:
                if ctx.mine():
                    check_schema(ctx, schemas, version, line)
                    count += 1
        ctx.exhaustive["field-alphabet-lines"] = count
        for version in VERSIONS:
            for i, line in enumerate(lines):
                if i % 7 == 0 and ctx.mine():
                    check_validate_api(ctx, schemas, version, line)
        for version in VERSIONS:
            for i, line in enumerate(lines):
                if i % 40 == 0 and ctx.mine():
                    check_independent_decodes(ctx, schemas, version, line)
                    check_independent_decodes(ctx, schemas, version, line)
        # random mutations of valid lines
        for _ in range(ctx.pick(40000, 3000000) // ctx.shard_count):
            version = rng.choice(VERSIONS)
            head = gens.random_wellformed(rng)
            line = ";".join(str(x) for x in head) + ";" + gens.random_payload(rng, roundtrip_safe=False)
            for _ in range(rng.choice([1, 1, 2, 3])):
                line = mutate(rng, line)
            check_schema(ctx, schemas, version, line)
        # every character Unicode calls a digit, a number or a letter-number (Nd, No, Nl: ~1 900 code points - superscripts,
        # circled and parenthesised numbers, fractions, Roman numerals, digits of every script) alone and next to ASCII
        # digits in each header field: int() accepts only the Nd ones, str.isdigit / isnumeric say yes to more
        import sys
        import unicodedata

        digitlike = [chr(cp) for cp in range(128, sys.maxunicode + 1) if unicodedata.category(chr(cp)) in ("Nd", "No", "Nl")]
        ctx.exhaustive["digit-like-code-points"] = len(digitlike)
        plain = ["1", "0", "1", "0", "2"]
        for index, ch in enumerate(digitlike):
            if not ctx.mine():
                continue
            version = VERSIONS[index % 5]
            for position in range(5):
                for text in (ch, plain[position] + ch) if (index + position) % 3 else (ch, ch + plain[position], ch + ch):
                    parts = list(plain)
                    parts[position] = text
                    check_schema(ctx, schemas, version, ";".join(parts) + ";1")
                    ctx.clause("digit-like-field")
        # truncate valid lines at every position
        for i in range(ctx.pick(60, 600) // ctx.shard_count + 1):
            version = VERSIONS[i % 5]
            head = gens.random_wellformed(rng)
            line = ";".join(str(x) for x in head) + ";" + rng.choice(["", "12", "a;b"])
            for cut in range(len(line) + 1):
                check_schema(ctx, schemas, version, line[:cut])
        # gateway level sample (5 %)
        sample = [line for i, line in enumerate(lines) if i % 20 == 0]
        for version in VERSIONS:
            for line in sample:
                if ctx.mine():
                    arun(gateway_case(ctx, version, line))
    reach.into(ctx)
    for clause in ("schema:accept", "schema:reject", "schema:either", "gateway:reject", "gateway:accept"):
        ctx.require(clause, 20)
