"""C16 - gateway context life-cycle: load on entry, periodic and final save, no leftovers.

(a) Deterministic: VLoop (virtual time) + InlineExecutor.  The context is left after k loop
    iterations for every k in a range (every position of the background saver: not started, inside
    each file operation of its first save, sleeping), x {normal, body raises, disconnect fails}
    x {file missing, present, empty} x {scripted transport, MQTTClient on a fake aiomqtt client};
    connect failures of several exception classes; a cadence run over virtual hours with registry
    changes at random virtual instants.
(b) Real loop, real thread pool, real time: scripted, TCP (loopback server), serial (pty), MQTT
    (fake client) with the exit moment randomised by sleep(0) x k and microsecond sleeps.  Oracles
    are timing independent: exception class, tasks left, disconnect called, file == final registry.
"""

from __future__ import annotations

import asyncio
import itertools
import json
import os
import shutil
import socket

from ..ctx import scratch_dir
from ..harness import ScriptedTransport
from ..mqttfake import FakeClient, install
from ..reach import Reach
from ..vloop import LogicalDeadlock, run_virtual
from .c13 import first_difference, snap, typed
from .c14 import NATIVE

LEVEL = "exploration"
SHARDS = {"quick": 6, "thorough": 16}
RULE = ("deterministic sweep: exit after k = 0..40 (thorough 0..200) loop iterations x mode {normal, body raises, disconnect "
        "fails, both} x file {missing, present, empty} x transport {scripted, MQTT on fake client} with a registry change "
        "before/after; connect failing with TransportError/OSError/ValueError/RuntimeError/OverflowError/timeout/"
        "cancellation; cadence run of 10 (thorough 100) virtual hours with random registry changes polled every 30 virtual "
        "seconds; real-time stress of 60 (thorough 2000) contexts over scripted/TCP/serial/MQTT transports with randomised "
        "exit moments and peer faults; distinct = distinct parameter tuple; non-trivial = all except k=0 normal")
ASSUMES = ["'at least every 15 minutes' is checked as: a registry change is on disk within 900 virtual seconds (+ one poll "
           "interval) of being made", "unclosed-file ResourceWarnings and slow-callback warnings are diagnostics only",
           "when both the body and disconnect fail either exception may propagate"]
ANCHORS = ["aiomysensors.gateway:Gateway.__aenter__", "aiomysensors.gateway:Gateway.__aexit__",
           "aiomysensors.persistence:Persistence.start", "aiomysensors.persistence:Persistence.stop",
           "aiomysensors.persistence:Persistence.save", "aiomysensors.persistence:Persistence.load"]
SAVE_BOUND = 900
OPTIONS_IN_FORCE: dict = {}  # non-default values of Config options this harness does not know (unknown_option_pass)


class BodyError(Exception):
    pass


class DisconnectBoom(Exception):
    """Raised by the harness transport's disconnect (stands for any failure of disconnect)."""


def registry_on_disk(path: str):
    """Parse the file with the real loader, on a private loop in a helper thread (callable from inside a loop)."""
    import threading

    from aiomysensors.persistence import Persistence

    box: list = []

    def work() -> None:
        nodes: dict = {}
        loop = asyncio.new_event_loop()
        try:
            loop.run_until_complete(Persistence(nodes, path).load())
            box.append(("ok", typed(snap(nodes))))
        except Exception as exc:  # noqa: BLE001
            box.append(("unreadable", f"{type(exc).__name__}: {exc!s:.80}"))
        finally:
            loop.run_until_complete(loop.shutdown_default_executor())
            loop.close()

    thread = threading.Thread(target=work)
    thread.start()
    thread.join()
    return box[0]


def prepare_file(path: str, state: str) -> None:
    if os.path.exists(path):
        os.unlink(path)
    if state == "present":
        with open(path, "w", encoding="utf-8") as fil:
            json.dump(NATIVE, fil)
    elif state == "empty":
        open(path, "w").close()


def make_transport(kind: str, params: dict):
    if kind == "scripted":
        transport = ScriptedTransport()
        if params["mode"] in ("disconnect-fails", "both"):
            transport.disconnect_error = DisconnectBoom("disconnect failed")
        return transport
    if kind == "mqtt-fake":
        from aiomysensors.transport.mqtt import MQTTClient

        return MQTTClient("broker.invalid", 1883, in_prefix="in", out_prefix="out")
    raise ValueError(kind)


async def context_scenario(params: dict, path: str, *, real_time: bool = False) -> dict:
    """Enter and leave `async with Gateway` once; return the observations."""
    from aiomysensors.gateway import Config, Gateway
    from aiomysensors.model.node import Node

    result: dict = {"params": params}
    transport = params.get("_transport") or make_transport(params["transport"], params)
    gateway = Gateway(transport, Config(persistence_file=path, **OPTIONS_IN_FORCE))
    before_tasks = set(asyncio.all_tasks())
    observed: BaseException | None = None
    final_snapshot = None
    entered = False
    try:
        async with gateway:
            entered = True
            result["loaded"] = typed(snap(gateway.nodes))
            if params.get("change") in ("early", "both"):
                gateway.nodes[9] = Node(9, 17, "2.0", sketch_name="early")
            for _ in range(params["k"]):
                await asyncio.sleep(0)
            if real_time and params.get("sleep_s"):
                await asyncio.sleep(params["sleep_s"])
            if params.get("change") in ("late", "both"):
                gateway.nodes[10] = Node(10, 18, "2.1", sketch_name="late", battery_level=7)
            if params.get("pre_exit_hook"):
                await params["pre_exit_hook"]()
            final_snapshot = typed(snap(gateway.nodes))
            if params["mode"] in ("body-raises", "both"):
                raise BodyError("body")
    except BaseException as exc:  # noqa: BLE001  observation
        observed = exc
    if final_snapshot is None:
        final_snapshot = typed(snap(gateway.nodes))
    await asyncio.sleep(0)
    if params.get("settle_after_exit"):
        # file operations that were in flight when their coroutine was cancelled still take effect (a worker thread cannot be
        # recalled): give every straggler the time to land before the file is judged
        await asyncio.sleep(params["settle_after_exit"])
    leftovers = [t for t in asyncio.all_tasks() if t not in before_tasks and t is not asyncio.current_task() and not t.done()]
    result.update(entered=entered, observed=observed, leftovers=[repr(t)[:160] for t in leftovers],
                  final_snapshot=final_snapshot, transport=transport, gateway=gateway)
    for task in leftovers:
        task.cancel()
    if leftovers:
        await asyncio.gather(*leftovers, return_exceptions=True)
    return result


def judge_context(ctx, result: dict, path: str, case: dict) -> None:
    params = result["params"]
    mode = params["mode"]
    observed = result["observed"]
    # exception
    ctx.clause("exit-exception")
    allowed: tuple = ()
    if mode == "normal":
        allowed = ()
    elif mode == "body-raises":
        allowed = (BodyError,)
    elif mode == "disconnect-fails":
        allowed = (DisconnectBoom,)
    else:
        allowed = (BodyError, DisconnectBoom)
    if observed is None:
        if mode != "normal":
            ctx.violation("exit-swallowed-exception", f"mode {mode}: the context exit swallowed the exception", case)
    elif not isinstance(observed, allowed or ()):
        key = "exit-raises-" + type(observed).__name__
        if isinstance(observed, asyncio.CancelledError):
            key = "exit-during-save-cancelled"
        ctx.violation(key, f"mode {mode}, k={params['k']}, file {params['file']}, transport {params['transport']}: leaving the "
                           f"context raised {type(observed).__name__}: {observed!s:.100}", case)
    # tasks
    ctx.clause("no-task-left")
    if result["leftovers"]:
        ctx.violation("task-left-after-exit", f"mode {mode}, k={params['k']}: tasks still running after the context was left: "
                                             f"{result['leftovers']}", case)
    # disconnect
    ctx.clause("disconnect-called")
    transport = result["transport"]
    if isinstance(transport, ScriptedTransport):
        if result["entered"] and transport.disconnected < 1:
            ctx.violation("disconnect-not-called", f"mode {mode}, k={params['k']}: transport.disconnect was not called", case)
    elif params["transport"] == "mqtt-fake" and FakeClient.instances:
        if result["entered"] and FakeClient.instances[-1].exited < 1:
            ctx.violation("disconnect-not-called", "MQTT client context was not exited", case)
    # entry loaded the file
    if params["file"] == "present" and result["entered"]:
        ctx.clause("entry-loads-file")
        from ..c15_child import build  # noqa: F401

        want = {("int", int(k)): None for k in NATIVE}
        if set(result["loaded"]) != set(want):
            ctx.violation("entry-did-not-load-file", f"registry after entry has nodes {sorted(k[1] for k in result['loaded'])}, "
                                                     f"file has {sorted(NATIVE)}", case)
    # final save
    if result["entered"]:
        ctx.clause("final-registry-on-disk")
        status, disk = registry_on_disk(path)
        if status != "ok":
            key = "final-file-unreadable"
            try:
                if os.path.getsize(path) == 0:
                    key = "final-file-truncated"
            except OSError:
                key = "final-file-missing"
            ctx.violation(key, f"mode {mode}, k={params['k']}, file {params['file']}: after exit the file is {disk}", case)
        elif disk != result["final_snapshot"]:
            diff = first_difference(result["final_snapshot"], disk)
            ctx.violation("no-final-save", f"mode {mode}, k={params['k']}, file {params['file']}: file differs from the final "
                                           f"registry at {diff}", case)


def deterministic_case(ctx, workdir: str, params: dict) -> None:
    path = os.path.join(workdir, "p.json")
    prepare_file(path, params["file"])
    case = {"engine": "vloop", **{k: v for k, v in params.items() if not k.startswith("_")}}
    with install() as seam:
        if params["transport"] == "mqtt-fake" and not seam:
            ctx.skip("mqtt-fake", "no aiomqtt client seam in aiomysensors.transport.mqtt")
            return
        if params["transport"] == "mqtt-fake" and params["mode"] in ("disconnect-fails", "both"):
            from aiomqtt import MqttError

            FakeClient.exit_error = MqttError("exit failed")  # MQTTClient absorbs broker errors on disconnect
            params = {**params, "mode": "normal" if params["mode"] == "disconnect-fails" else "body-raises"}
        result, loop = run_virtual(lambda: context_scenario(params, path))
        if isinstance(result, LogicalDeadlock):
            ctx.violation("context-deadlock", f"the loop ran dry (logical deadlock) in {case}", case)
            return
        if isinstance(result, BaseException):
            from ..harness import scenario_exception

            scenario_exception(ctx, result, case, "context-scenario")
            return
        ctx.case(tuple(sorted(case.items())), nontrivial=not (params["k"] == 0 and params["mode"] == "normal"), sample=case)
        ctx.obs("loop-iterations", loop.iterations)
        for record in loop.records:
            ctx.obs("sanitizer:" + str(record["message"])[:60])
        judge_context(ctx, result, path, case)


CONNECT_ERRORS = {
    "TransportError": lambda: __import__("aiomysensors.exceptions", fromlist=["x"]).TransportError("refused"),
    "OSError": lambda: OSError("boom"), "ValueError": lambda: ValueError("bad baud"),
    "RuntimeError": lambda: RuntimeError("already connected"), "OverflowError": lambda: OverflowError("port"),
    "CancelledError": lambda: asyncio.CancelledError(),
}


def connect_failure_case(ctx, workdir: str, name: str, file_state: str) -> None:
    from aiomysensors.gateway import Config, Gateway

    path = os.path.join(workdir, "p.json")
    prepare_file(path, file_state)
    case = {"engine": "vloop", "connect_error": name, "file": file_state}

    async def scenario() -> dict:
        transport = ScriptedTransport()
        hang = asyncio.Event()
        if name == "timeout":
            async def never() -> None:
                await hang.wait()

            transport.connect = never  # type: ignore[method-assign]
        else:
            transport.connect_error = CONNECT_ERRORS[name]()
        gateway = Gateway(transport, Config(persistence_file=path, **OPTIONS_IN_FORCE))
        before = set(asyncio.all_tasks())
        observed = None
        try:
            if name == "timeout":
                await asyncio.wait_for(gateway.__aenter__(), timeout=5)
            else:
                async with gateway:
                    pass
        except BaseException as exc:  # noqa: BLE001
            observed = exc
        await asyncio.sleep(0)
        left = [t for t in asyncio.all_tasks() if t not in before and t is not asyncio.current_task() and not t.done()]
        out = {"observed": observed, "leftovers": [repr(t)[:160] for t in left], "want": transport.connect_error}
        for t in left:
            t.cancel()
        if left:
            await asyncio.gather(*left, return_exceptions=True)
        return out

    result, loop = run_virtual(scenario)
    ctx.case(("connect-fail", name, file_state), sample=case)
    ctx.clause("connect-failure-propagates")
    if isinstance(result, LogicalDeadlock):
        ctx.violation("context-deadlock", f"logical deadlock in {case}", case)
        return
    if isinstance(result, BaseException):
        from ..harness import scenario_exception

        scenario_exception(ctx, result, case, "connect-failure-scenario")
        return
    observed = result["observed"]
    want_type = asyncio.TimeoutError if name == "timeout" else type(result["want"])
    if observed is None or not isinstance(observed, want_type):
        ctx.violation("connect-failure-not-propagated", f"connect failing with {name}: context raised "
                                                        f"{type(observed).__name__ if observed else 'nothing'}", case)
    ctx.clause("connect-failure-no-task-left")
    if result["leftovers"]:
        ctx.violation("saver-leak-on-connect-failure", f"connect failing with {name}: tasks left behind {result['leftovers']}",
                      case)


async def _until_body_parked(state: dict, k: int) -> None:
    """Loop iterations until the session body has made its change (bounded; entry takes a few iterations of file I/O)."""
    for _ in range(2000):
        if "final" in state:
            break
        await asyncio.sleep(0)
    for _ in range(k % 4):
        await asyncio.sleep(0)


def cancelled_exit_case(ctx, workdir: str, transport_kind: str, k: int, how: str, file_state: str) -> None:
    """The task running `async with Gateway` is cancelled (task.cancel() / asyncio.timeout) while inside the body:
    the context is left through CancelledError / TimeoutError - an exception like any other: transport disconnected,
    final registry on disk, no task left, and the cancellation propagates."""
    from aiomysensors.gateway import Config, Gateway
    from aiomysensors.model.node import Node

    path = os.path.join(workdir, "cx.json")
    prepare_file(path, file_state)
    case = {"engine": "vloop", "cancelled_exit": how, "transport": transport_kind, "k": k, "file": file_state}

    async def scenario() -> dict:
        transport = make_transport(transport_kind, {"mode": "normal"})
        gateway = Gateway(transport, Config(persistence_file=path, **OPTIONS_IN_FORCE))
        state: dict = {"entered": False}
        before = set(asyncio.all_tasks())

        async def session() -> None:
            async with gateway:
                state["entered"] = True
                gateway.nodes[30] = Node(30, 17, "2.0", sketch_name="before cancel")
                for _ in range(k):
                    await asyncio.sleep(0)
                state["final"] = typed(snap(gateway.nodes))
                await asyncio.sleep(10_000)  # parked in the body until cancelled / timed out

        observed = None
        if how == "cancel":
            task = asyncio.ensure_future(session())
            if k % 2 or k > 8:
                await _until_body_parked(state, k)
            else:
                for _ in range(k + 6):  # lands inside the entry (load / first save / connect)
                    await asyncio.sleep(0)
            task.cancel()
            try:
                await task
            except BaseException as exc:  # noqa: BLE001
                observed = exc
        elif how.startswith("cancel-all"):
            # the application shuts down by sweeping asyncio.all_tasks() (a signal handler, asyncio.run's own teardown when
            # the session is not the main task): the library's background tasks are cancelled together with the session
            task = asyncio.ensure_future(session())
            await _until_body_parked(state, k)
            others = [t for t in asyncio.all_tasks() if t not in before and t is not task and t is not asyncio.current_task()]
            state["swept"] = len(others)
            for t in ([*others, task] if how == "cancel-all-library-first" else [task, *others]):
                t.cancel()
            try:
                await task
            except BaseException as exc:  # noqa: BLE001
                observed = exc
        else:
            try:
                async with asyncio.timeout(5):
                    await session()
            except BaseException as exc:  # noqa: BLE001
                observed = exc
        await asyncio.sleep(0)
        left = [repr(t)[:160] for t in asyncio.all_tasks() if t not in before and t is not asyncio.current_task()
                and not t.done()]
        out = {"observed": observed, "leftovers": left, "state": state, "transport": transport}
        for t in [t for t in asyncio.all_tasks() if t is not asyncio.current_task()]:
            t.cancel()
        return out

    with install() as seam:
        if transport_kind == "mqtt-fake" and not seam:
            return
        result, _loop = run_virtual(scenario)
        exited = FakeClient.instances[-1].exited if (transport_kind == "mqtt-fake" and FakeClient.instances) else None
    ctx.case(("cancelled-exit", transport_kind, k, how, file_state), sample=case)
    ctx.clause("exit-through-cancellation")
    if isinstance(result, LogicalDeadlock):
        ctx.violation("context-deadlock", f"logical deadlock in {case}", case)
        return
    if isinstance(result, BaseException):
        from ..harness import scenario_exception

        scenario_exception(ctx, result, case, "cancelled-exit-scenario")
        return
    state = result["state"]
    if not state.get("entered") or "final" not in state:
        # the cancellation arrived while the context was still being entered: nothing was promised about the file, but the
        # cancellation propagates and nothing of the library stays behind
        ctx.obs("cancelled-before-body-finished-setup")
        ctx.clause("cancelled-during-entry")
        if not isinstance(result["observed"], (asyncio.CancelledError, TimeoutError)):
            ctx.violation("cancellation-not-propagated", f"{how} during entry: the session ended with "
                                                         f"{type(result['observed']).__name__}", case)
        if result["leftovers"]:
            ctx.violation("task-left-after-exit", f"{how} during entry (k={k}): tasks left {result['leftovers']}", case)
        return
    ctx.clause("cancelled-exit-judged")
    want = asyncio.CancelledError if how.startswith("cancel") else TimeoutError
    if how.startswith("cancel-all"):
        ctx.clause("exit-through-task-sweep")
        ctx.obs(f"library-tasks-swept:{state.get('swept')}")
    if not isinstance(result["observed"], want):
        ctx.violation("cancellation-not-propagated", f"{how}: the session ended with {type(result['observed']).__name__}", case)
    if result["leftovers"]:
        ctx.violation("task-left-after-exit", f"{how} exit (k={k}): tasks left {result['leftovers']}", case)
    transport = result["transport"]
    if isinstance(transport, ScriptedTransport) and transport.disconnected < 1:
        ctx.violation("disconnect-not-called", f"{how} exit (k={k}): transport.disconnect was not called", case)
    if exited is not None and exited < 1:
        ctx.violation("disconnect-not-called", f"{how} exit (k={k}): the MQTT client context was not exited", case)
    status, disk = registry_on_disk(path)
    if status != "ok" or disk != state["final"]:
        diff = first_difference(state["final"], disk) if status == "ok" else disk
        ctx.violation("no-final-save-on-task-sweep" if how.startswith("cancel-all") else "no-final-save-on-cancelled-exit",
                      f"the session task was cancelled ({how}, k={k}, file {file_state}, transport {transport_kind}): after the "
                      f"context was left the file does not hold the final registry ({diff})", case)


def late_exit_case(ctx, workdir: str, periods: int, k: int, mode: str) -> None:
    """Leave the context while the n-th PERIODIC save (not the first one) is in progress, then keep the loop running for
    two more save intervals: nothing of the abandoned session may act any more (no save, no task), the file stays the
    final registry even if the abandoned registry object is changed afterwards."""
    from aiomysensors.gateway import Config, Gateway
    from aiomysensors.model.node import Node

    path = os.path.join(workdir, "late.json")
    prepare_file(path, "missing")
    case = {"engine": "vloop", "late_exit_periods": periods, "k": k, "mode": mode}

    async def scenario() -> dict:
        transport = make_transport("scripted", {"mode": mode})
        gateway = Gateway(transport, Config(persistence_file=path, **OPTIONS_IN_FORCE))
        before = set(asyncio.all_tasks())
        observed = None
        try:
            async with gateway:
                gateway.nodes[40] = Node(40, 17, "2.0")
                # wakes in the same virtual instant as the saver's periodic timer; the k extra iterations then walk
                # through the file operations of that periodic save
                await asyncio.sleep(SAVE_BOUND * periods)
                for _ in range(k):
                    await asyncio.sleep(0)
                gateway.nodes[41] = Node(41, 17, "2.0", sketch_name="just before exit")
                final = typed(snap(gateway.nodes))
                if mode == "body-raises":
                    raise BodyError("body")
        except BaseException as exc:  # noqa: BLE001
            observed = exc
        status0, disk0 = registry_on_disk(path)
        # the session is over: whatever the abandoned objects hold must never reach the file again
        gateway.nodes[99] = Node(99, 17, "zombie")
        await asyncio.sleep(2 * SAVE_BOUND + 10)
        status1, disk1 = registry_on_disk(path)
        left = [repr(t)[:160] for t in asyncio.all_tasks() if t not in before and t is not asyncio.current_task()
                and not t.done()]
        for t in [t for t in asyncio.all_tasks() if t is not asyncio.current_task()]:
            t.cancel()
        return {"observed": observed, "final": final, "at_exit": (status0, disk0), "later": (status1, disk1), "left": left}

    result, loop = run_virtual(scenario)
    ctx.case(("late-exit", periods, k, mode), sample=case)
    ctx.clause("exit-during-periodic-save")
    if isinstance(result, LogicalDeadlock):
        ctx.violation("context-deadlock", f"logical deadlock in {case}", case)
        return
    if isinstance(result, BaseException):
        ctx.violation("late-exit-raised", f"{type(result).__name__}: {result!s:.80}", case)
        return
    observed = result["observed"]
    if mode == "normal" and observed is not None or mode == "body-raises" and not isinstance(observed, BodyError):
        key = "exit-during-save-cancelled" if isinstance(observed, asyncio.CancelledError) else "exit-raises-" + type(observed).__name__
        ctx.violation(key, f"exit during periodic save #{periods} (k={k}, {mode}) raised {type(observed).__name__}", case)
    if result["at_exit"] != ("ok", result["final"]):
        ctx.violation("no-final-save", f"exit during periodic save #{periods} (k={k}): file after exit is not the final registry "
                                       f"({result['at_exit'][0]})", case)
    ctx.clause("nothing-acts-after-exit")
    if result["later"] != result["at_exit"]:
        ctx.violation("save-after-exit", f"exit during periodic save #{periods} (k={k}, {mode}): {2 * SAVE_BOUND + 10} virtual "
                                         f"seconds AFTER the context was left the file was rewritten by the abandoned session", case)
    if result["left"]:
        ctx.violation("task-left-after-exit", f"tasks alive {2 * SAVE_BOUND + 10} virtual seconds after exit: {result['left']}", case)


def long_horizon_case(ctx, workdir: str, hours: int) -> None:
    """Coarse polling (every 450 virtual seconds) over a long horizon: the periodic saver must still be alive after
    hundreds / thousands of periods, and leaving the context after that long must still work."""
    from aiomysensors.gateway import Config, Gateway
    from aiomysensors.model.node import Node

    path = os.path.join(workdir, "long.json")
    prepare_file(path, "missing")
    case = {"engine": "vloop", "long_horizon_hours": hours}
    poll = 450

    async def scenario() -> dict:
        loop = asyncio.get_running_loop()
        gateway = Gateway(ScriptedTransport(), Config(persistence_file=path, **OPTIONS_IN_FORCE))
        problems = []
        checks = 0
        observed = None
        try:
            async with gateway:
                end = loop.time() + hours * 3600
                counter = 0
                pending: list[tuple[float, int]] = []
                while loop.time() < end:
                    await asyncio.sleep(poll)
                    counter += 1
                    gateway.nodes[1] = Node(1, 17, "2.0", heartbeat=counter)
                    pending.append((loop.time(), counter))
                    if counter % 4 == 0:
                        status, disk = registry_on_disk(path)
                        checks += 1
                        on_disk = dict(disk).get(("int", 1)) if status == "ok" else None
                        if on_disk is None and counter > 2:
                            # a save is in progress at this very instant (the file is momentarily empty: that window is
                            # C15's subject, not C16's): no information from this poll
                            await asyncio.sleep(7)
                            status, disk = registry_on_disk(path)
                            on_disk = dict(disk).get(("int", 1)) if status == "ok" else None
                        beat = dict(on_disk)[("str", "heartbeat")][1] if on_disk else -1
                        pending = [(t, c) for t, c in pending if c > beat]
                        if pending and loop.time() - pending[0][0] > SAVE_BOUND + poll + 1 and not problems:
                            problems.append(("periodic-save-too-late",
                                             f"after {loop.time() / 3600:.1f} virtual hours a change made at "
                                             f"t={pending[0][0]:.0f}s is still not on disk at t={loop.time():.0f}s"))
                final = typed(snap(gateway.nodes))
        except BaseException as exc:  # noqa: BLE001
            observed = exc
            final = typed(snap(gateway.nodes))
        status, disk = registry_on_disk(path)
        if observed is not None:
            problems.append(("exit-raises-" + type(observed).__name__, f"leaving the context after {hours} virtual hours raised "
                                                                       f"{type(observed).__name__}: {observed!s:.60}"))
        if status != "ok" or disk != final:
            problems.append(("no-final-save", f"after {hours} virtual hours the file after exit is not the final registry"))
        return {"problems": problems, "checks": checks, "virtual_seconds": loop.time()}

    result, loop = run_virtual(scenario)
    ctx.case(("long-horizon", hours), sample=case)
    if isinstance(result, LogicalDeadlock):
        ctx.violation("context-deadlock", f"logical deadlock in {case}", case)
        return
    if isinstance(result, BaseException):
        ctx.violation("long-horizon-raised", f"{type(result).__name__}", case)
        return
    ctx.clause("cadence-poll", result["checks"])
    ctx.obs("virtual-seconds", int(result["virtual_seconds"]))
    for key, what in result["problems"][:3]:
        ctx.violation(key, what, case)


def builtin_connect_failure_case(ctx, workdir: str, name: str) -> None:
    """A built-in transport whose connect fails: the context must raise exactly what transport.connect() raises
    (same class), leave no task behind - also when the failure is not a TransportError."""
    from aiomqtt import MqttError

    from aiomysensors.gateway import Config, Gateway
    from aiomysensors.transport.mqtt import MQTTClient

    path = os.path.join(workdir, "bcf.json")
    prepare_file(path, "present")
    case = {"engine": "vloop", "builtin_connect_failure": name}

    def make():
        if name == "mqtt-broker-refuses":
            FakeClient.connect_error = MqttError("connection refused")
        elif name == "mqtt-subscribe-fails":
            FakeClient.subscribe_error = MqttError("subscribe failed")
        return MQTTClient("broker.invalid", 1883, in_prefix="in", out_prefix="out")

    async def scenario() -> dict:
        reference = None
        try:
            await make().connect()
        except BaseException as exc:  # noqa: BLE001
            reference = exc
        gateway = Gateway(make(), Config(persistence_file=path, **OPTIONS_IN_FORCE))
        before = set(asyncio.all_tasks())
        observed = None
        try:
            async with gateway:
                pass
        except BaseException as exc:  # noqa: BLE001
            observed = exc
        await asyncio.sleep(0)
        left = [t for t in asyncio.all_tasks() if t not in before and t is not asyncio.current_task() and not t.done()
                and "reference" not in repr(t)]
        out = {"reference": reference, "observed": observed, "leftovers": [repr(t)[:160] for t in left]}
        for t in [t for t in asyncio.all_tasks() if t is not asyncio.current_task()]:
            t.cancel()
        return out

    with install() as seam:
        if not seam:
            ctx.skip("mqtt-fake", "no aiomqtt client seam")
            return
        result, _loop = run_virtual(scenario)
    ctx.case(("builtin-connect-fail", name), sample=case)
    if isinstance(result, LogicalDeadlock):
        ctx.violation("context-deadlock", f"logical deadlock in {case}", case)
        return
    if isinstance(result, BaseException):
        from ..harness import scenario_exception

        scenario_exception(ctx, result, case, "builtin-connect-failure-scenario")
        return
    ctx.clause("connect-failure-propagates")
    reference, observed = result["reference"], result["observed"]
    if reference is None:
        ctx.obs("builtin-connect-failure-did-not-fail:" + name)
        return
    if observed is None or type(observed) is not type(reference):
        ctx.violation("connect-failure-not-propagated",
                      f"{name}: transport.connect() raises {type(reference).__name__} but entering the gateway context raised "
                      f"{type(observed).__name__ if observed else 'nothing'} ({observed!s:.80})", case)
    ctx.clause("connect-failure-no-task-left")
    if [t for t in result["leftovers"] if "save" in t]:
        ctx.violation("saver-leak-on-connect-failure", f"{name}: tasks left behind {result['leftovers']}", case)


def traffic_exit_case(ctx, workdir: str, transport_kind: str, k: int, ending: str) -> None:
    """Real traffic inside the context: the body consumes gateway.listen() (presentations, two id requests, sets, a
    wake, a version report), then the session ends normally / by a body exception / because listen() itself raised a
    transport failure.  After the exit the abandoned objects are watched for two more virtual save intervals."""
    from aiomqtt import MqttError

    from aiomysensors.exceptions import TransportFailedError
    from aiomysensors.gateway import Config, Gateway
    from aiomysensors.model.node import Node

    path = os.path.join(workdir, "traffic.json")
    prepare_file(path, "present")
    case = {"engine": "vloop", "traffic_exit": ending, "transport": transport_kind, "k": k}
    lines = ["0;255;3;0;2;2.1.0", "255;255;3;0;3;", "255;255;3;0;3;", "5;255;0;0;17;2.1", "5;0;0;0;6;t", "5;0;1;0;0;21.5",
             "1;1;1;0;49;1,2,3", "5;255;3;0;22;3", "255;7;3;0;3;", "1;255;3;0;0;66"]

    async def scenario() -> dict:
        transport = make_transport(transport_kind, {"mode": "normal"})
        gateway = Gateway(transport, Config(persistence_file=path, **OPTIONS_IN_FORCE))
        before = set(asyncio.all_tasks())
        observed = None
        state: dict = {}
        try:
            async with gateway:
                if transport_kind == "scripted":
                    transport.lines.extend(line + "\n" for line in lines)
                    if ending == "listen-transport-failure":
                        original_read = transport.read

                        async def failing_read() -> str:
                            if not transport.lines:
                                raise TransportFailedError("link lost")
                            return await original_read()

                        transport.read = failing_read  # type: ignore[method-assign]
                else:
                    client = FakeClient.instances[-1]
                    for line in lines:
                        n, c, cmd, ack, t, payload = line.split(";", 5)
                        client.deliver(f"in/{n}/{c}/{cmd}/{ack}/{t}", payload.encode())
                    if ending == "listen-transport-failure":
                        client.deliver_error(MqttError("broker went away"))
                handled = 0
                iterator = gateway.listen()
                while handled < len(lines) + (1 if ending == "listen-transport-failure" else 0):
                    try:
                        await iterator.__anext__()
                    except TransportFailedError:
                        state["final"] = typed(snap(gateway.nodes))
                        raise
                    except Exception as exc:  # noqa: BLE001  library errors of single messages do not end the session
                        if type(exc).__name__ == "ScriptEnd":
                            break
                        iterator = gateway.listen()
                    handled += 1
                for _ in range(k):
                    await asyncio.sleep(0)
                state["final"] = typed(snap(gateway.nodes))
                if ending == "body-raises":
                    raise BodyError("body")
        except BaseException as exc:  # noqa: BLE001
            observed = exc
        state.setdefault("final", typed(snap(gateway.nodes)))
        status0, disk0 = registry_on_disk(path)
        gateway.nodes[98] = Node(98, 17, "zombie")
        await asyncio.sleep(2 * SAVE_BOUND + 10)
        status1, disk1 = registry_on_disk(path)
        left = [repr(t)[:160] for t in asyncio.all_tasks() if t not in before and t is not asyncio.current_task()
                and not t.done()]
        for t in [t for t in asyncio.all_tasks() if t is not asyncio.current_task()]:
            t.cancel()
        return {"observed": observed, "final": state["final"], "at_exit": (status0, disk0), "later": (status1, disk1),
                "left": left, "transport": transport}

    with install() as seam:
        if transport_kind == "mqtt-fake" and not seam:
            return
        result, _loop = run_virtual(scenario)
        exited = FakeClient.instances[-1].exited if (transport_kind == "mqtt-fake" and FakeClient.instances) else None
    ctx.case(("traffic-exit", transport_kind, k, ending), sample=case)
    ctx.clause("exit-after-real-traffic")
    if isinstance(result, LogicalDeadlock):
        ctx.violation("context-deadlock", f"logical deadlock in {case}", case)
        return
    if isinstance(result, BaseException):
        ctx.violation("traffic-exit-raised", f"{type(result).__name__}: {result!s:.80}", case)
        return
    observed = result["observed"]
    want = {"normal": type(None), "body-raises": BodyError, "listen-transport-failure": TransportFailedError}[ending]
    if not isinstance(observed, want):
        ctx.violation("exit-raises-" + type(observed).__name__, f"{ending}: the session ended with {type(observed).__name__}: "
                                                                f"{observed!s:.80}", case)
    transport = result["transport"]
    if isinstance(transport, ScriptedTransport) and transport.disconnected < 1:
        ctx.violation("disconnect-not-called", f"{ending} (k={k}): transport.disconnect was not called on exit", case)
    if exited is not None and exited < 1:
        ctx.violation("disconnect-not-called", f"{ending} (k={k}): the MQTT client was not exited when the context was left", case)
    if result["at_exit"] != ("ok", result["final"]):
        ctx.violation("no-final-save", f"{ending} (k={k}): the file after exit is not the final registry ({result['at_exit'][0]})", case)
    ctx.clause("nothing-acts-after-exit")
    if result["later"] != result["at_exit"]:
        ctx.violation("save-after-exit", f"{ending} (k={k}, {transport_kind}): the file was rewritten after the context was left", case)
    if result["left"]:
        ctx.violation("task-left-after-exit", f"{ending} (k={k}, {transport_kind}): tasks alive after exit: {result['left']}", case)


def many_sessions_case(ctx, workdir: str, sessions: int) -> None:
    """The same Gateway object through many enter/leave cycles: every session saves on entry and on exit, leaves no task,
    and the number of tasks / timers does not grow."""
    from aiomysensors.gateway import Config, Gateway
    from aiomysensors.model.node import Node

    path = os.path.join(workdir, "many.json")
    prepare_file(path, "missing")
    case = {"engine": "vloop", "many_sessions": sessions}

    async def scenario() -> dict:
        problems = []
        gateway = Gateway(ScriptedTransport(), Config(persistence_file=path, **OPTIONS_IN_FORCE))
        before = set(asyncio.all_tasks())
        for index in range(sessions):
            gateway.nodes[index % 200] = Node(index % 200, 17, "2.0", heartbeat=index)
            async with gateway:
                await asyncio.sleep(index % 3)
                status, disk = registry_on_disk(path)
                if index % 3 and (status != "ok" or disk != typed(snap(gateway.nodes))) and not problems:
                    problems.append(("no-save-after-entry", f"session #{index}: the registry is not on disk after entry"))
                gateway.nodes[201] = Node(201, 17, "2.0", heartbeat=index)
            status, disk = registry_on_disk(path)
            if (status != "ok" or disk != typed(snap(gateway.nodes))) and len(problems) < 2:
                problems.append(("no-final-save", f"session #{index}: file after exit is not the final registry ({status})"))
            left = [t for t in asyncio.all_tasks() if t not in before and t is not asyncio.current_task() and not t.done()]
            if left and len(problems) < 3:
                problems.append(("task-left-after-exit", f"after session #{index}: {[repr(t)[:100] for t in left]}"))
        return {"problems": problems}

    result, _loop = run_virtual(scenario)
    ctx.case(("many-sessions", sessions), sample=case)
    ctx.clause("second-session", sessions)
    if isinstance(result, LogicalDeadlock):
        ctx.violation("context-deadlock", f"logical deadlock in {case}", case)
    elif isinstance(result, BaseException):
        ctx.violation("second-session-raised", f"{type(result).__name__}: {result!s:.80}", case)
    else:
        for key, what in result["problems"]:
            ctx.violation(key, what, case)


def second_session_case(ctx, workdir: str, transport_kind: str, k: int, first: str = "normal") -> None:
    """The same Gateway object is entered, left and entered again: the second session must save on entry, keep the
    15-minute cadence and save on exit exactly like the first."""
    from aiomysensors.gateway import Config, Gateway
    from aiomysensors.model.node import Node

    path = os.path.join(workdir, "second.json")
    prepare_file(path, "missing")
    case = {"engine": "vloop", "second_session": True, "transport": transport_kind, "k": k, "first": first}

    async def scenario() -> dict:
        problems = []
        transport = make_transport(transport_kind, {"mode": "normal"})
        gateway = Gateway(transport, Config(persistence_file=path, **OPTIONS_IN_FORCE))
        # how the FIRST session ended must not matter to the second: normally, with the body raising, with the
        # transport's disconnect failing (the connection was already gone), or never established (connect refused)
        if first == "disconnect-fails":
            transport.disconnect_error = DisconnectBoom("disconnect failed")
        elif first == "connect-fails":
            from aiomysensors.exceptions import TransportError as _TE

            transport.connect_error = _TE("refused")
        try:
            async with gateway:
                for _ in range(k):
                    await asyncio.sleep(0)
                if first == "body-raises":
                    raise KeyError("application error")
                if first == "final-save-fails":
                    # a transient disk fault hits the final save of the first session (round 15): the path is a
                    # directory for a moment, the file as last written is put back afterwards
                    gateway.nodes[19] = Node(19, 17, "2.0", sketch_name="found in the first session")
                    if os.path.isfile(path):
                        os.replace(path, path + ".aside")
                    os.mkdir(path)
        except (DisconnectBoom, KeyError) as exc:
            if first not in ("disconnect-fails", "body-raises"):
                raise
            _ = exc
        except Exception as exc:  # noqa: BLE001
            if first not in ("connect-fails", "final-save-fails"):
                raise
            _ = exc
        if first == "final-save-fails":
            if os.path.isdir(path):
                os.rmdir(path)
            if os.path.isfile(path + ".aside"):
                os.replace(path + ".aside", path)
        transport.disconnect_error = None
        transport.connect_error = None
        if first != "final-save-fails":  # there the registry stays exactly the one whose save failed
            gateway.nodes[20] = Node(20, 17, "2.0", sketch_name="between sessions")
        before = set(asyncio.all_tasks())
        async with gateway:
            await asyncio.sleep(1)
            status, disk = registry_on_disk(path)
            if status != "ok" or disk != typed(snap(gateway.nodes)):
                problems.append(("no-save-after-entry", "second session: 1 virtual second after entry the file does not hold "
                                                        f"the registry (file {status})"))
            gateway.nodes[21] = Node(21, 17, "2.0")
            await asyncio.sleep(SAVE_BOUND + 5)
            status, disk = registry_on_disk(path)
            if status != "ok" or disk != typed(snap(gateway.nodes)):
                problems.append(("periodic-save-too-late", f"second session: a change is not on disk {SAVE_BOUND + 5} virtual "
                                                           f"seconds later (file {status})"))
            gateway.nodes[22] = Node(22, 17, "2.0")
        final = typed(snap(gateway.nodes))
        await asyncio.sleep(0)
        left = [repr(t)[:160] for t in asyncio.all_tasks() if t not in before and t is not asyncio.current_task()
                and not t.done()]
        status, disk = registry_on_disk(path)
        if status != "ok" or disk != final:
            problems.append(("no-final-save", f"second session: file after exit differs from the registry (file {status})"))
        if left:
            problems.append(("task-left-after-exit", f"second session left {left}"))
        for t in [t for t in asyncio.all_tasks() if t is not asyncio.current_task()]:
            t.cancel()
        return {"problems": problems}

    with install() as seam:
        if transport_kind == "mqtt-fake" and not seam:
            return
        result, _loop = run_virtual(scenario)
    ctx.case(("second-session", transport_kind, k, first), sample=case)
    ctx.clause("second-session")
    if isinstance(result, LogicalDeadlock):
        ctx.violation("context-deadlock", f"logical deadlock in {case}", case)
        return
    if isinstance(result, BaseException):
        ctx.violation("second-session-raised", f"{type(result).__name__}", case)
        return
    for key, what in result["problems"]:
        ctx.violation(key, what, case)


class PacedTransport(ScriptedTransport):
    """Lines arrive `gap` (virtual) seconds apart, for ever: every line reports a new value."""

    gap = 2.0

    async def read(self) -> str:
        await asyncio.sleep(self.gap)
        self.counter = getattr(self, "counter", 0) + 1
        return f"1;0;1;0;2;report-{self.counter}\n"


def traffic_cadence_case(ctx, workdir: str, gap: float) -> None:
    """The 15-minute cadence while messages keep arriving through listen() every `gap` virtual seconds (a sensor that
    reports continuously): at 1 850 s the file must hold a value that was reported before 900 s."""
    from aiomysensors.gateway import Config, Gateway
    from aiomysensors.model.node import Child, Node

    path = os.path.join(workdir, "paced.json")
    prepare_file(path, "missing")
    case = {"engine": "vloop", "traffic_cadence_gap": gap}

    async def scenario() -> dict:
        transport = PacedTransport()
        transport.gap = gap
        gateway = Gateway(transport, Config(persistence_file=path, **OPTIONS_IN_FORCE))
        gateway.protocol_version = "2.2"
        gateway.nodes[1] = Node(1, 17, "2.2", children={0: Child(0, 3)})
        problems = []
        seen: dict[float, str] = {}
        loop = asyncio.get_running_loop()
        async with gateway:
            start = loop.time()

            async def consume() -> None:
                async for message in gateway.listen():
                    seen[loop.time() - start] = message.payload

            consumer = asyncio.ensure_future(consume())
            await asyncio.sleep(2 * SAVE_BOUND + 50)
            status, disk = registry_on_disk(path)
            early = [payload for when, payload in seen.items() if when < SAVE_BOUND - 50]
            on_disk = None
            if status == "ok":
                for key, node in disk.items():
                    text = json.dumps(str(node))
                    found = [int(x) for x in __import__("re").findall(r"report-(\d+)", text)]
                    on_disk = max(found) if found else None
            newest_early = max((int(p.split("-")[1]) for p in early), default=None)
            if newest_early is None:
                problems.append(("INCONCLUSIVE", "no traffic was consumed"))
            elif on_disk is None or on_disk < newest_early:
                problems.append(("periodic-save-too-late", f"messages every {gap} s through listen(): at {2 * SAVE_BOUND + 50} s the "
                                                           f"file holds report #{on_disk}, report #{newest_early} was received "
                                                           f"before {SAVE_BOUND - 50} s"))
            consumer.cancel()
            await asyncio.gather(consumer, return_exceptions=True)
        for t in [t for t in asyncio.all_tasks() if t is not asyncio.current_task()]:
            t.cancel()
        return {"problems": problems, "consumed": len(seen)}

    result, _loop = run_virtual(scenario)
    ctx.case(("traffic-cadence", gap), sample=case)
    if isinstance(result, LogicalDeadlock):
        ctx.violation("context-deadlock", f"logical deadlock in {case}", case)
    elif isinstance(result, BaseException):
        from ..harness import scenario_exception

        scenario_exception(ctx, result, case, "traffic-cadence")
    else:
        ctx.clause("cadence-under-continuous-traffic")
        ctx.obs("traffic-cadence-lines", result["consumed"])
        for key, what in result["problems"]:
            if key == "INCONCLUSIVE":
                ctx.inconclusive.append(f"traffic cadence case: {what}")
            else:
                ctx.violation(key, what, case)


def slow_disk_case(ctx, workdir: str, delay, k: int, mode: str) -> None:
    """Every file operation takes `delay` virtual seconds (a slow or sleeping disk, a network share): entry, one change,
    exit after k loop iterations.  Leaving the context still writes the final registry and raises nothing of its own."""
    path = os.path.join(workdir, "slowdisk.json")
    prepare_file(path, "present")
    longest = max(delay) if isinstance(delay, (list, tuple)) else delay
    params = {"transport": "scripted", "mode": mode, "file": "present", "k": k, "change": "late", "executor_delay": delay,
              "settle_after_exit": 3 * longest + 5}
    case = {"engine": "vloop", **params}
    result, loop = run_virtual(lambda: context_scenario(params, path), executor_delay=delay)
    ctx.case(("slow-disk", delay, k, mode), sample=case)
    if isinstance(result, LogicalDeadlock):
        ctx.violation("context-deadlock", f"logical deadlock in {case}", case)
        return
    if isinstance(result, BaseException):
        from ..harness import scenario_exception

        scenario_exception(ctx, result, case, "slow-disk")
        return
    ctx.clause("slow-disk-exit")
    judge_context(ctx, result, path, case)


def split_task_case(ctx, workdir: str, transport_kind: str, how: str) -> None:
    """The context is entered by one task and left by another (an AsyncExitStack opened in a set-up task and closed in a
    tear-down task, a test fixture, an integration whose load / unload callbacks are separate tasks): leaving still
    disconnects, stops the saver, writes the final registry."""
    from contextlib import AsyncExitStack

    from aiomysensors.gateway import Config, Gateway
    from aiomysensors.model.node import Node

    path = os.path.join(workdir, "split.json")
    prepare_file(path, "present")
    case = {"engine": "vloop", "split_task": how, "transport": transport_kind}

    async def scenario() -> dict:
        transport = make_transport(transport_kind, {"mode": "normal"})
        gateway = Gateway(transport, Config(persistence_file=path, **OPTIONS_IN_FORCE))
        before = set(asyncio.all_tasks())
        stack = AsyncExitStack()
        observed = None

        async def setup() -> None:
            if how == "exit-stack":
                await stack.enter_async_context(gateway)
            else:
                await gateway.__aenter__()

        async def teardown() -> None:
            if how == "exit-stack":
                await stack.aclose()
            else:
                await gateway.__aexit__(None, None, None)

        await asyncio.ensure_future(setup())
        await asyncio.sleep(5)
        gateway.nodes[33] = Node(33, 17, "2.0", sketch_name="added between the tasks")
        final = typed(snap(gateway.nodes))
        try:
            await asyncio.ensure_future(teardown())
        except Exception as exc:  # noqa: BLE001
            observed = exc
        await asyncio.sleep(0)
        left = [repr(t)[:140] for t in asyncio.all_tasks() if t not in before and t is not asyncio.current_task() and not t.done()]
        for t in [t for t in asyncio.all_tasks() if t is not asyncio.current_task()]:
            t.cancel()
        return {"observed": observed, "left": left, "final": final,
                "disconnected": getattr(transport, "disconnected", None)}

    with install() as seam:
        if transport_kind == "mqtt-fake" and not seam:
            return
        result, _loop = run_virtual(scenario)
        exited = FakeClient.instances[-1].exited if (transport_kind == "mqtt-fake" and FakeClient.instances) else None
    ctx.case(("split-task", transport_kind, how), sample=case)
    ctx.clause("entered-and-left-by-different-tasks")
    if isinstance(result, LogicalDeadlock):
        ctx.violation("context-deadlock", f"logical deadlock in {case}", case)
        return
    if isinstance(result, BaseException):
        from ..harness import scenario_exception

        scenario_exception(ctx, result, case, "split-task")
        return
    if result["observed"] is not None:
        exc = result["observed"]
        ctx.violation("exit-raised", f"leaving the context from another task than the one that entered it raised "
                                     f"{type(exc).__name__}: {exc!s:.100}", case)
    if result["left"]:
        ctx.violation("task-left-after-exit", f"{result['left']}", case)
    if (transport_kind == "scripted" and not result["disconnected"]) or (transport_kind == "mqtt-fake" and exited != 1):
        ctx.violation("disconnect-not-called", "the transport was not disconnected", case)
    status, disk = registry_on_disk(path)
    if status != "ok" or disk != result["final"]:
        ctx.violation("no-final-save", f"file after exit is not the final registry (file {status})", case)


def cancelled_app_save_case(ctx, workdir: str, delay: float, at: float) -> None:
    """Slow disk (every file operation takes `delay` virtual seconds); at `at` seconds the application changes the registry
    and calls persistence.save() under a timeout that expires before the save is through.  The periodic saves are not the
    application's business: the change is on disk 900 s (+ one slow save) after the last periodic save all the same."""
    from aiomysensors.gateway import Config, Gateway
    from aiomysensors.model.node import Node

    path = os.path.join(workdir, "appsave.json")
    prepare_file(path, "missing")
    case = {"engine": "vloop", "cancelled_app_save": [delay, at]}

    async def scenario() -> dict:
        problems = []
        gateway = Gateway(ScriptedTransport(), Config(persistence_file=path, **OPTIONS_IN_FORCE))
        loop = asyncio.get_running_loop()
        async with gateway:
            start = loop.time()
            await asyncio.sleep(at)
            try:
                await asyncio.wait_for(gateway.persistence.save(), delay * 1.5)
                problems.append(("INCONCLUSIVE", "the application's save was not cut short"))
            except (asyncio.TimeoutError, Exception):  # noqa: BLE001
                pass
            await asyncio.sleep(4 * delay)
            gateway.nodes[70] = Node(70, 17, "2.0", sketch_name="changed after the application's cancelled save")
            # the entry save takes a few file operations, the periodic save is due 900 s after it and takes as long again;
            # HOW MANY operations a save needs (open / write / flush / fsync / close ...) is the implementation's business:
            # allow twenty per save - a schedule that was pushed back by the application's save is late by minutes
            await asyncio.sleep(start + 20 * delay + SAVE_BOUND + 20 * delay + 30 - loop.time())
            status, disk = registry_on_disk(path)
            if status != "ok" or disk != typed(snap(gateway.nodes)):
                problems.append(("periodic-save-too-late", f"slow disk ({delay} s per file operation), application save cancelled "
                                                           f"at {at} s: {int(loop.time() - start)} s after entry the change is not "
                                                           f"on disk (file {status})"))
        for t in [t for t in asyncio.all_tasks() if t is not asyncio.current_task()]:
            t.cancel()
        return {"problems": problems}

    result, _loop = run_virtual(scenario, executor_delay=delay)
    ctx.case(("cancelled-app-save", delay, at), sample=case)
    if isinstance(result, LogicalDeadlock):
        ctx.violation("context-deadlock", f"logical deadlock in {case}", case)
    elif isinstance(result, BaseException):
        from ..harness import scenario_exception

        scenario_exception(ctx, result, case, "cancelled-app-save")
    else:
        ctx.clause("cadence-with-cancelled-application-save")
        for key, what in result["problems"]:
            if key == "INCONCLUSIVE":
                ctx.obs("cancelled-app-save:" + what)
            else:
                ctx.violation(key, what, case)


def unknown_option_pass(ctx, workdir: str) -> None:
    """C16 holds however the gateway is configured: with every Config option this harness does not know set to a
    non-default value, a slice of the exit-moment sweep, the sessions on one object (file replaced / removed in between,
    registry emptied), the cadence to the second and the slow disk run again."""
    from ..harness import unknown_options

    options = unknown_options()
    ctx.obs("unknown-config-options", len(options))
    for index, extra in enumerate(options):
        if not ctx.mine(index):
            continue
        OPTIONS_IN_FORCE.clear()
        OPTIONS_IN_FORCE.update(extra)
        original_violation = ctx.violation

        def violation(key, what, case=None, _extra=dict(extra)):  # every witness of this pass carries its options (replay)
            return original_violation(key, what, {**case, "options": _extra} if isinstance(case, dict) else case)

        ctx.violation = violation
        try:
            for k in (0, 1, 2, 3, 4, 5, 6, 8, 12, 30):
                for file_state in ("missing", "present"):
                    deterministic_case(ctx, workdir, {"transport": "scripted", "mode": ("normal", "body-raises")[k % 2],
                                                      "file": file_state, "k": k, "change": "both", "options": dict(extra)})
            # not under unknown options: everything about WHEN periodic saves happen (an option may be the save interval)
            for variant in ("file-replaced", "file-replaced-and-registry-cleared", "emptied", "file-removed-exit-only"):
                changed_file_between_sessions_case(ctx, workdir, "scripted", variant)
            for periods in (1, 2):
                for k in (0, 2, 5, 9):
                    late_exit_case(ctx, workdir, periods, k, "normal")
            slow_disk_case(ctx, workdir, 4, 3, "normal")
            for give_up_after in (0.5, 4, 15, 45, 200):
                for how in ("timeout", "cancel"):
                    failing_connect_given_up_case(ctx, workdir, give_up_after, how)
            for delay in (2, 20, 200):
                slow_disconnect_case(ctx, workdir, delay, "normal")
            ctx.clause("unknown-option-pass")
        finally:
            OPTIONS_IN_FORCE.clear()
            ctx.violation = original_violation


def failing_connect_given_up_case(ctx, workdir: str, give_up_after: float, how: str) -> None:
    """connect() fails with a TransportError every time it is tried; the application gives the entry `give_up_after`
    virtual seconds (asyncio.timeout / task.cancel()) - long enough for any retry or back-off an option may add to be
    under way.  However the entry ends, no background task is left and nothing keeps writing the file."""
    from aiomysensors.exceptions import TransportError
    from aiomysensors.gateway import Config, Gateway
    from aiomysensors.model.node import Node

    path = os.path.join(workdir, "giveup.json")
    prepare_file(path, "present")
    case = {"engine": "vloop", "failing_connect_given_up": [give_up_after, how]}

    async def scenario() -> dict:
        transport = ScriptedTransport()
        transport.connect_error = TransportError("gateway unreachable")
        gateway = Gateway(transport, Config(persistence_file=path, **OPTIONS_IN_FORCE))
        before = set(asyncio.all_tasks())
        observed = None

        async def enter() -> None:
            async with gateway:
                await asyncio.sleep(3600)

        task = asyncio.ensure_future(enter())
        if how == "cancel":
            await asyncio.sleep(give_up_after)
            task.cancel()
        try:
            await (asyncio.wait_for(task, give_up_after) if how == "timeout" else task)
        except BaseException as exc:  # noqa: BLE001
            observed = exc
        await asyncio.sleep(0)
        left = [t for t in asyncio.all_tasks() if t not in before and t is not asyncio.current_task() and not t.done()]
        before_text = open(path, encoding="utf-8").read() if os.path.exists(path) else None
        gateway.nodes[55] = Node(55, 17, "2.0", sketch_name="added after the failed entry")
        await asyncio.sleep(2 * SAVE_BOUND + 50)
        after_text = open(path, encoding="utf-8").read() if os.path.exists(path) else None
        out = {"observed": observed, "left": [repr(t)[:140] for t in left], "zombie_write": before_text != after_text}
        for t in [t for t in asyncio.all_tasks() if t is not asyncio.current_task()]:
            t.cancel()
        return out

    result, _loop = run_virtual(scenario)
    ctx.case(("failing-connect-given-up", give_up_after, how, repr(sorted(OPTIONS_IN_FORCE.items()))), sample=case)
    if isinstance(result, LogicalDeadlock):
        ctx.violation("context-deadlock", f"logical deadlock in {case}", case)
        return
    if isinstance(result, BaseException):
        from ..harness import scenario_exception

        scenario_exception(ctx, result, case, "failing-connect")
        return
    ctx.clause("connect-failure-no-task-left")
    if result["observed"] is None:
        ctx.violation("connect-failure-not-propagated", "the context was entered although connect always fails", case)
    if result["left"]:
        ctx.violation("saver-leak-on-connect-failure", f"connect kept failing, the application gave up after {give_up_after} s "
                                                       f"({how}): tasks left behind {result['left']}", case)
    if result["zombie_write"]:
        ctx.violation("save-after-exit", f"after the failed entry ({how} at {give_up_after} s) the file was still being rewritten", case)


class SlowDisconnectTransport(ScriptedTransport):
    """disconnect() takes `delay` virtual seconds (a peer that is slow to take the last bytes, a broker that lingers)."""

    delay = 30.0

    async def disconnect(self) -> None:
        self.events.append(("disconnect", None, None))
        await asyncio.sleep(self.delay)
        self.disconnected += 1


def slow_disconnect_case(ctx, workdir: str, delay: float, mode: str) -> None:
    """Leaving the context with a transport whose disconnect takes a long time: when `async with` is over the transport IS
    disconnected, the final registry is on disk and no task of the library is still running."""
    path = os.path.join(workdir, "slowdisc.json")
    prepare_file(path, "present")
    transport = SlowDisconnectTransport()
    transport.delay = delay
    params = {"transport": "scripted", "mode": mode, "file": "present", "k": 2, "change": "late", "_transport": transport,
              "slow_disconnect": delay}
    case = {"engine": "vloop", "slow_disconnect": delay, "mode": mode}
    result, _loop = run_virtual(lambda: context_scenario(params, path))
    ctx.case(("slow-disconnect", delay, mode, repr(sorted(OPTIONS_IN_FORCE.items()))), sample=case)
    if isinstance(result, LogicalDeadlock):
        ctx.violation("context-deadlock", f"logical deadlock in {case}", case)
        return
    if isinstance(result, BaseException):
        from ..harness import scenario_exception

        scenario_exception(ctx, result, case, "slow-disconnect")
        return
    ctx.clause("slow-disconnect-exit")
    if transport.disconnected != 1:
        ctx.violation("disconnect-not-called", f"disconnect takes {delay} virtual seconds: when the context was left the transport "
                                               f"had completed {transport.disconnected} disconnects", case)
    judge_context(ctx, result, path, case)


def exact_cadence_case(ctx, workdir: str, periods: int) -> None:
    """'At least every 15 minutes', to the second: on the virtual clock file operations take no time, so a change made one
    second after the n-th save must be on disk 900.5 s after that save - a period of 901 s is already too long."""
    from aiomysensors.gateway import Config, Gateway
    from aiomysensors.model.node import Node

    path = os.path.join(workdir, "exact.json")
    prepare_file(path, "missing")
    case = {"engine": "vloop", "exact_cadence_periods": periods}

    async def scenario() -> dict:
        problems = []
        gateway = Gateway(ScriptedTransport(), Config(persistence_file=path, **OPTIONS_IN_FORCE))
        loop = asyncio.get_running_loop()
        async with gateway:
            start = loop.time()
            for period in range(1, periods + 1):
                await asyncio.sleep(start + (period - 1) * SAVE_BOUND + 1 - loop.time())
                gateway.nodes[100 + period] = Node(100 + period, 17, "2.0", heartbeat=period)
                await asyncio.sleep(start + period * SAVE_BOUND + 0.5 - loop.time())
                status, disk = registry_on_disk(path)
                if status != "ok" or disk != typed(snap(gateway.nodes)):
                    problems.append(("periodic-save-too-late", f"a change made 1 s after save #{period} is not on disk "
                                                               f"{SAVE_BOUND}.5 virtual seconds after that save (file {status})"))
                    break
        for t in [t for t in asyncio.all_tasks() if t is not asyncio.current_task()]:
            t.cancel()
        return {"problems": problems}

    result, _loop = run_virtual(scenario)
    ctx.case(("exact-cadence", periods), sample=case)
    ctx.clause("cadence-to-the-second", periods)
    if isinstance(result, LogicalDeadlock):
        ctx.violation("context-deadlock", f"logical deadlock in {case}", case)
    elif isinstance(result, BaseException):
        from ..harness import scenario_exception

        scenario_exception(ctx, result, case, "exact-cadence")
    else:
        for key, what in result["problems"]:
            ctx.violation(key, what, case)


def changed_file_between_sessions_case(ctx, workdir: str, transport_kind: str, variant: str) -> None:
    """Entering the context loads the file - EVERY time.  Between two sessions on the same Gateway object the file is
    replaced (a backup restored while the gateway was down) resp. the application empties the registry inside the
    session; the next entry must pick up the file's nodes, and the final save must write the registry as it is, also
    when that is empty."""
    from aiomysensors.gateway import Config, Gateway
    from aiomysensors.model.node import Child, Node
    from aiomysensors.persistence import Persistence

    path = os.path.join(workdir, "between.json")
    prepare_file(path, "present")
    case = {"engine": "vloop", "changed_file_between_sessions": variant, "transport": transport_kind}

    async def scenario() -> dict:
        problems = []
        gateway = Gateway(make_transport(transport_kind, {"mode": "normal"}), Config(persistence_file=path, **OPTIONS_IN_FORCE))
        async with gateway:
            await asyncio.sleep(1)
        first = typed(snap(gateway.nodes))
        if variant in ("file-removed", "file-removed-exit-only"):
            os.unlink(path)  # somebody deleted the file while the gateway was down
            async with gateway:
                await asyncio.sleep(SAVE_BOUND + 5)
                status, disk = registry_on_disk(path)
                if variant == "file-removed" and (status != "ok" or disk != typed(snap(gateway.nodes))):
                    problems.append(("no-save-after-entry", f"the file was removed between two sessions: {SAVE_BOUND + 5} s into "
                                                            f"the second session it does not hold the registry (file {status})"))
            status, disk = registry_on_disk(path)
            if status != "ok" or disk != typed(snap(gateway.nodes)):
                problems.append(("no-final-save", f"the file was removed between two sessions: after the second exit it does not "
                                                  f"hold the registry (file {status})"))
        elif variant in ("file-replaced", "file-replaced-and-registry-cleared"):
            other = {77: Node(77, 17, "2.1", sketch_name="restored from backup",
                              children={4: Child(4, 6, description="from backup", values={0: "21.5"})})}
            await Persistence(other, path).save()
            if variant.endswith("cleared"):
                gateway.nodes.clear()
            async with gateway:
                await asyncio.sleep(1)
                got = typed(snap(gateway.nodes))
                want77 = typed(snap(other))
                key77 = next(iter(want77))
                if got.get(key77) != want77[key77]:
                    problems.append(("file-not-loaded-on-entry", f"second entry on the same Gateway: the file held node 77, "
                                                                 f"the registry after entry has {sorted(k[1] for k in got)}"))
            status, disk = registry_on_disk(path)
            if status != "ok" or disk != typed(snap(gateway.nodes)):
                problems.append(("no-final-save", f"after the second session the file is not the registry (file {status})"))
        else:  # the application forgets every node inside the session
            async with gateway:
                await asyncio.sleep(1)
                gateway.nodes.clear()
                if variant == "emptied-then-periodic":
                    await asyncio.sleep(SAVE_BOUND + 5)
                    status, disk = registry_on_disk(path)
                    if status != "ok" or disk != {}:
                        problems.append(("periodic-save-too-late", f"registry emptied by the application: {SAVE_BOUND + 5} "
                                                                   f"virtual seconds later the file still holds "
                                                                   f"{disk if status == 'ok' else status!r:.80}"))
            status, disk = registry_on_disk(path)
            if status != "ok" or disk != {}:
                problems.append(("no-final-save", f"the registry was emptied inside the session (it had {len(first)} nodes); "
                                                  f"after exit the file still holds {len(disk) if status == 'ok' else status} nodes"))
        for t in [t for t in asyncio.all_tasks() if t is not asyncio.current_task()]:
            t.cancel()
        return {"problems": problems, "first": len(first)}

    with install() as seam:
        if transport_kind == "mqtt-fake" and not seam:
            return
        result, _loop = run_virtual(scenario)
    ctx.case(("changed-file", transport_kind, variant), sample=case)
    ctx.clause("file-loaded-on-every-entry" if variant.startswith("file-replaced") else "emptied-registry-saved")
    if isinstance(result, LogicalDeadlock):
        ctx.violation("context-deadlock", f"logical deadlock in {case}", case)
    elif isinstance(result, BaseException):
        ctx.violation("second-session-raised", f"{type(result).__name__}: {result!s:.80}", case)
    else:
        if not result["first"]:
            ctx.inconclusive.append("changed-file case: the prepared file loaded to an empty registry")
        for key, what in result["problems"]:
            ctx.violation(key, what, case)


def rebound_transport_case(ctx, workdir: str, mode: str) -> None:
    """`gateway.transport` is a public attribute: an application that fails over to another bridge inside a session (connects
    the new transport, assigns it, disconnects the old one itself) still leaves the context with the final registry written
    and nothing left, and traffic inside the session goes through the transport in force."""
    from aiomysensors.gateway import Config, Gateway
    from aiomysensors.model.node import Node

    path = os.path.join(workdir, "rebound.json")
    prepare_file(path, "missing")
    case = {"engine": "vloop", "rebound_transport": mode}

    async def scenario() -> dict:
        first, second = ScriptedTransport(), ScriptedTransport()
        gateway = Gateway(first, Config(persistence_file=path, **OPTIONS_IN_FORCE))
        before = set(asyncio.all_tasks())
        observed = None
        try:
            async with gateway:
                await asyncio.sleep(1)
                await second.connect()
                gateway.transport = second
                await first.disconnect()
                gateway.nodes[40] = Node(40, 17, "2.0", sketch_name="after fail-over")
                second.lines.append("40;255;3;0;0;55\n")
                async for _message in gateway.listen():
                    break
                await asyncio.sleep(1)
                if mode == "body-raises":
                    raise KeyError("application error")
        except KeyError as exc:
            observed = exc
        await asyncio.sleep(0)
        left = [repr(t)[:160] for t in asyncio.all_tasks() if t not in before and t is not asyncio.current_task()
                and not t.done()]
        return {"observed": observed, "left": left, "second_disconnected": second.disconnected, "second_reads": second.attempts,
                "final": typed(snap(gateway.nodes))}

    result, _loop = run_virtual(scenario)
    ctx.case(("rebound-transport", mode), sample=case)
    ctx.clause("transport-rebound-inside-session")
    if isinstance(result, LogicalDeadlock):
        ctx.violation("context-deadlock", f"logical deadlock in {case}", case)
        return
    if isinstance(result, BaseException):
        from ..harness import scenario_exception

        scenario_exception(ctx, result, case, "rebound-transport")
        return
    # WHICH transport the exit disconnects after the application swapped the attribute is not stated (a behaviour-preserving
    # refactor that registers its tear-down at entry disconnects the one it connected): observed, not judged
    ctx.obs("rebound-transport:exit-disconnected-" + ("the-new-one" if result["second_disconnected"] else "the-one-it-connected"))
    if result["left"]:
        ctx.violation("task-left-after-exit", f"rebound transport: tasks left {result['left']}", case)
    status, disk = registry_on_disk(path)
    if status != "ok" or disk != result["final"]:
        ctx.violation("no-final-save", f"rebound transport: file after exit is not the final registry (file {status})", case)


class _LeaveEarly(Exception):
    """The body of a session ends before the entry save has finished."""


EARLY_DELAY = 3.0


def multi_loop_sessions_case(ctx, workdir: str, sessions: int, k: int, engine: str) -> None:
    """The same Gateway object entered again under a NEW event loop (an application whose retry loop calls
    asyncio.run(main(gateway)) again after a lost connection).  Each session stays long enough for the saver to park,
    observes one periodic save and leaves; anything the library keeps on the object between sessions (events, locks,
    queues created once) is waited on under both loops."""
    from aiomysensors.gateway import Config, Gateway
    from aiomysensors.model.node import Node

    path = os.path.join(workdir, "multiloop.json")
    prepare_file(path, "missing")
    case = {"engine": engine, "multi_loop_sessions": sessions, "k": k}
    gateway = Gateway(ScriptedTransport(), Config(persistence_file=path, **OPTIONS_IN_FORCE))
    problems: list[tuple[str, str]] = []

    async def session(index: int) -> None:
        before = set(asyncio.all_tasks())
        gateway.nodes[30 + index] = Node(30 + index, 17, "2.0", sketch_name=f"before session {index}")
        try:
            async with gateway:
                for _ in range(k):
                    await asyncio.sleep(0)
                if engine == "vloop-early":
                    # slow disk, and the session is over while the entry save is still inside a file operation
                    await asyncio.sleep(EARLY_DELAY * (k % 3))
                    gateway.nodes[90 + index] = Node(90 + index, 18, "2.1")
                    raise _LeaveEarly
                await asyncio.sleep(1 if engine == "vloop" else 0.01)
                status, disk = registry_on_disk(path)
                if engine != "vloop":
                    # real time: how long the first save takes depends on the machine's load - poll generously, and a
                    # save that does not show up is a watchdog observation, not a verdict (the VLoop engine decides)
                    for _ in range(400):
                        if status == "ok" and disk == typed(snap(gateway.nodes)):
                            break
                        await asyncio.sleep(0.025)
                        status, disk = registry_on_disk(path)
                    else:
                        ctx.obs("real-case-watchdog")
                elif status != "ok" or disk != typed(snap(gateway.nodes)):
                    problems.append(("no-save-after-entry", f"session #{index} (own event loop): the registry is not on disk "
                                                            f"after entry (file {status})"))
                gateway.nodes[60 + index] = Node(60 + index, 17, "2.0", heartbeat=index)
                if engine == "vloop":
                    await asyncio.sleep(SAVE_BOUND + 5)
                    status, disk = registry_on_disk(path)
                    if status != "ok" or disk != typed(snap(gateway.nodes)):
                        problems.append(("periodic-save-too-late", f"session #{index} (own event loop): a change is not on "
                                                                   f"disk {SAVE_BOUND + 5} virtual seconds later"))
                gateway.nodes[90 + index] = Node(90 + index, 18, "2.1")
        except _LeaveEarly:
            await asyncio.sleep(4 * EARLY_DELAY + 5)
        except Exception as exc:  # noqa: BLE001
            problems.append(("exit-raised", f"session #{index} under its own event loop: the context raised "
                                            f"{type(exc).__name__}: {exc!s:.100}"))
        await asyncio.sleep(0)
        left = [t for t in asyncio.all_tasks() if t not in before and t is not asyncio.current_task() and not t.done()]
        if left:
            problems.append(("task-left-after-exit", f"session #{index}: {[repr(t)[:100] for t in left]}"))
            for t in left:
                t.cancel()
        status, disk = registry_on_disk(path)
        if status != "ok" or disk != typed(snap(gateway.nodes)):
            problems.append(("no-final-save", f"session #{index} (own event loop): file after exit is not the final registry "
                                              f"(file {status})"))

    for index in range(sessions):
        if engine in ("vloop", "vloop-early"):
            result, _loop = run_virtual(lambda index=index: session(index),
                                        executor_delay=EARLY_DELAY if engine == "vloop-early" else 0.0)
            if isinstance(result, LogicalDeadlock):
                problems.append(("context-deadlock", f"session #{index}: logical deadlock"))
            elif isinstance(result, BaseException):
                problems.append(("second-session-raised", f"session #{index}: {type(result).__name__}: {result!s:.80}"))
        else:
            loop = asyncio.new_event_loop()
            try:
                loop.run_until_complete(asyncio.wait_for(session(index), 60))
            except asyncio.TimeoutError:
                ctx.obs("real-case-watchdog")
            finally:
                loop.run_until_complete(loop.shutdown_default_executor())
                loop.close()
        if problems:
            break
    ctx.case(("multi-loop", sessions, k, engine), sample=case)
    ctx.clause("session-under-new-event-loop", sessions - 1)
    for key, what in problems[:3]:
        ctx.violation(key, what, case)


class LiveTransport(ScriptedTransport):
    """Scripted lines arriving in real time (every read really suspends, so the saver and the thread pool run)."""

    delay = 0.0005

    async def read(self) -> str:
        await asyncio.sleep(self.delay)
        return await super().read()


def live_traffic_case(ctx, workdir: str, n_nodes: int, n_children: int, seed: int) -> None:
    """Real loop, real thread pool, whole-network registry: the file holds n_nodes x n_children, the context is entered
    and presentations of NEW nodes and children keep arriving while the entry save / application saves of the big registry
    are in progress.  Whatever runs in worker threads must not be disturbed by the registry changing on the loop thread."""
    import random

    from aiomysensors.gateway import Config, Gateway
    from aiomysensors.persistence import Persistence

    from ..harness import ScriptEnd
    from .c13 import big_registry

    rng = random.Random(seed)
    path = os.path.join(workdir, "live.json")
    prepare_file(path, "missing")
    case = {"engine": "real", "live_traffic": [n_nodes, n_children], "seed": seed}
    result: dict = {"problems": []}

    async def scenario() -> None:
        nodes = big_registry(rng, n_nodes, n_children, 2)
        await Persistence(nodes, path).save()
        transport = LiveTransport()
        new_ids = [n for n in range(1, 255) if n not in nodes]
        old_ids = sorted(nodes)
        for i in range(400):
            if i % 2 and new_ids:
                transport.lines.append(f"{new_ids.pop()};255;0;0;17;2.0\n")
            else:
                node = rng.choice(old_ids)
                free = [c for c in range(0, 255) if c not in nodes[node].children]
                transport.lines.append(f"{node};{rng.choice(free)};0;0;6;arrives during a save\n")
        gateway = Gateway(transport, Config(persistence_file=path, **OPTIONS_IN_FORCE))
        gateway.protocol_version = "2.2"
        before = set(asyncio.all_tasks())
        observed = None
        handled = 0
        try:
            async with gateway:
                async def app_saves() -> None:
                    for _ in range(3):
                        await asyncio.sleep(0.03)
                        await gateway.persistence.save()

                saver = asyncio.ensure_future(app_saves())
                try:
                    async for _message in gateway.listen():
                        handled += 1
                except ScriptEnd:
                    pass
                await saver
        except Exception as exc:  # noqa: BLE001
            observed = exc
        await asyncio.sleep(0.01)
        left = [t for t in asyncio.all_tasks() if t not in before and t is not asyncio.current_task() and not t.done()]
        result.update(observed=observed, handled=handled, left=[repr(t)[:120] for t in left],
                      final=typed(snap(gateway.nodes)), size=len(gateway.nodes))
        for t in left:
            t.cancel()

    loop = asyncio.new_event_loop()
    try:
        loop.run_until_complete(asyncio.wait_for(scenario(), 120))
    except asyncio.TimeoutError:
        ctx.obs("real-case-watchdog")
        return
    finally:
        loop.run_until_complete(loop.shutdown_default_executor())
        loop.close()
    ctx.case(("live-traffic", n_nodes, n_children, seed), sample=case)
    ctx.clause("live-traffic-during-saves")
    ctx.obs("live-traffic-lines-handled", result["handled"])
    if result["observed"] is not None:
        exc = result["observed"]
        ctx.violation("exit-raised", f"context with presentations arriving during saves of a {n_nodes}x{n_children} registry "
                                     f"raised {type(exc).__name__}: {exc!s:.100}", case)
    if result["left"]:
        ctx.violation("task-left-after-exit", f"{result['left']}", case)
    status, disk = registry_on_disk(path)
    if status != "ok" or disk != result["final"]:
        ctx.violation("no-final-save", f"after live traffic the file is not the final registry of {result['size']} nodes "
                                       f"(file {status})", case)


def cadence_case(ctx, workdir: str, hours: int, seed: int) -> None:
    from aiomysensors.gateway import Config, Gateway
    from aiomysensors.model.node import Child, Node
    import random

    rng = random.Random(seed)
    path = os.path.join(workdir, "cadence.json")
    prepare_file(path, "missing")
    case = {"engine": "vloop", "cadence_hours": hours, "seed": seed}
    poll = 30

    async def scenario() -> dict:
        loop = asyncio.get_running_loop()
        transport = ScriptedTransport()
        gateway = Gateway(transport, Config(persistence_file=path, **OPTIONS_IN_FORCE))
        problems = []
        checks = 0
        async with gateway:
            await asyncio.sleep(1)
            status, disk = registry_on_disk(path)
            checks += 1
            if status != "ok" or disk != typed(snap(gateway.nodes)):
                problems.append(("no-save-after-entry", f"1 virtual second after entry the file is {status}"))
            versions = [(loop.time(), typed(snap(gateway.nodes)))]  # (virtual time of change, registry after it)
            saved_upto = 0
            reported: set[int] = set()
            next_change = loop.time() + rng.uniform(10, 2000)
            end = loop.time() + hours * 3600
            counter = 0
            while loop.time() < end:
                await asyncio.sleep(poll)
                now = loop.time()
                if now >= next_change:
                    counter += 1
                    node = gateway.nodes.setdefault(counter % 5, Node(counter % 5, 17, "2.0"))
                    node.children[0] = Child(0, 6, description="c", values={0: f"v{counter}"})
                    next_change = now + rng.choice([5, 100, 450, 899, 901, 1500, 4000])
                    versions.append((now, typed(snap(gateway.nodes))))
                status, disk = registry_on_disk(path)
                checks += 1
                if status == "ok":
                    for index in range(len(versions) - 1, saved_upto - 1, -1):
                        if versions[index][1] == disk:
                            saved_upto = index
                            break
                oldest_unsaved = saved_upto + 1
                if oldest_unsaved < len(versions) and oldest_unsaved not in reported:
                    changed_at = versions[oldest_unsaved][0]
                    if now - changed_at > SAVE_BOUND + poll + 1:
                        reported.add(oldest_unsaved)
                        problems.append(("periodic-save-too-late",
                                         f"a registry change made at virtual t={changed_at:.0f}s is still not on disk at "
                                         f"t={now:.0f}s (> {SAVE_BOUND}s + poll interval); file status {status}"))
        return {"problems": problems, "checks": checks, "virtual_seconds": loop.time()}

    result, loop = run_virtual(scenario)
    ctx.case(("cadence", hours, seed), sample=case)
    if isinstance(result, LogicalDeadlock):
        ctx.violation("context-deadlock", f"logical deadlock in {case}", case)
        return
    if isinstance(result, BaseException):
        from ..harness import scenario_exception

        scenario_exception(ctx, result, case, "cadence-scenario")
        return
    ctx.clause("cadence-poll", result["checks"])
    ctx.obs("virtual-seconds", int(result["virtual_seconds"]))
    for key, what in result["problems"][:3]:
        ctx.violation(key, what, case)


# --------------------------------------------------------------------------------- real time
async def real_tcp_case(params: dict, path: str) -> dict:
    from aiomysensors.transport.tcp import TCPTransport

    closed = asyncio.Event()
    conns = []

    async def handler(reader, writer) -> None:
        conns.append(writer)
        try:
            if params.get("peer") == "reset":
                await asyncio.sleep(0)
                writer.transport.abort()
            else:
                await reader.read()  # until EOF = client disconnected
        except OSError:
            pass
        finally:
            closed.set()
            writer.close()

    server = await asyncio.start_server(handler, "127.0.0.1", 0)
    port = server.sockets[0].getsockname()[1]
    params = {**params, "_transport": TCPTransport("127.0.0.1", port)}
    try:
        result = await context_scenario(params, path, real_time=True)
        if result["entered"]:
            try:
                await asyncio.wait_for(closed.wait(), 5)
                result["peer_saw_close"] = True
            except asyncio.TimeoutError:
                result["peer_saw_close"] = False
    finally:
        server.close()
        await server.wait_closed()
    return result


async def real_serial_case(params: dict, path: str) -> dict:
    from aiomysensors.transport.serial import SerialTransport

    master, slave = os.openpty()
    try:
        params = {**params, "_transport": SerialTransport(os.ttyname(slave))}
        return await context_scenario(params, path, real_time=True)
    finally:
        os.close(master)
        os.close(slave)


def real_case(ctx, workdir: str, params: dict) -> None:
    path = os.path.join(workdir, "r.json")
    prepare_file(path, params["file"])
    case = {"engine": "real", **{k: v for k, v in params.items() if not k.startswith("_")}}
    records: list = []
    with install() as seam:
        if params["transport"] == "mqtt-fake" and not seam:
            return
        loop = asyncio.new_event_loop()
        loop.set_exception_handler(lambda _l, c: records.append(str(c.get("message"))[:60]))
        asyncio.set_event_loop(loop)
        try:
            if params["transport"] == "tcp":
                coro = real_tcp_case(params, path)
            elif params["transport"] == "serial":
                coro = real_serial_case(params, path)
            else:
                coro = context_scenario(params, path, real_time=True)
            result = loop.run_until_complete(asyncio.wait_for(coro, 60))
        except asyncio.TimeoutError:
            ctx.obs("real-case-watchdog")
            return
        finally:
            try:
                loop.run_until_complete(loop.shutdown_default_executor())
            except BaseException:  # noqa: BLE001
                pass
            asyncio.set_event_loop(None)
            loop.close()
    ctx.case(("real", tuple(sorted((k, str(v)) for k, v in case.items()))), sample=case)
    for message in records:
        ctx.obs("sanitizer:" + message)
    judge_context(ctx, result, path, case)
    if params["transport"] == "tcp" and result.get("entered") and params.get("peer") != "reset":
        ctx.clause("peer-saw-disconnect")
        if not result.get("peer_saw_close"):
            ctx.violation("disconnect-not-called", "the TCP peer never saw the connection close", case)


def real_connect_failures(ctx, workdir: str) -> None:
    """Built-in transports whose connect fails with something else than a TransportError."""
    from aiomysensors.gateway import Config, Gateway
    from aiomysensors.transport.serial import SerialTransport
    from aiomysensors.transport.tcp import TCPTransport

    sock = socket.socket()
    sock.bind(("127.0.0.1", 0))
    free_port = sock.getsockname()[1]  # stays bound (never listening) while the cases run: refused, and not reusable
    variants = {
        "tcp-refused": lambda: TCPTransport("127.0.0.1", free_port),
        "tcp-port-out-of-range": lambda: TCPTransport("127.0.0.1", 70000),
        "serial-missing-device": lambda: SerialTransport("/dev/vf-does-not-exist"),
        "serial-bad-baud": lambda: SerialTransport("/dev/null", baud=-5),
    }
    for name, factory in variants.items():
        path = os.path.join(workdir, "cf.json")
        prepare_file(path, "present")
        case = {"engine": "real", "connect_failure": name}

        async def scenario(factory=factory) -> dict:
            gateway = Gateway(factory(), Config(persistence_file=path, **OPTIONS_IN_FORCE))
            before = set(asyncio.all_tasks())
            observed = None
            try:
                async with gateway:
                    pass
            except BaseException as exc:  # noqa: BLE001
                observed = exc
            await asyncio.sleep(0.01)
            left = [t for t in asyncio.all_tasks() if t not in before and t is not asyncio.current_task() and not t.done()]
            out = {"observed": observed, "leftovers": [repr(t)[:160] for t in left]}
            for t in left:
                t.cancel()
            if left:
                await asyncio.gather(*left, return_exceptions=True)
            return out

        loop = asyncio.new_event_loop()
        try:
            result = loop.run_until_complete(asyncio.wait_for(scenario(), 30))
        finally:
            loop.run_until_complete(loop.shutdown_default_executor())
            loop.close()
        ctx.case(("real-connect-fail", name), sample=case)
        ctx.clause("connect-failure-propagates")
        ctx.obs(f"connect-failure:{name}:{type(result['observed']).__name__}")
        reference = None
        loop2 = asyncio.new_event_loop()
        try:
            loop2.run_until_complete(asyncio.wait_for(factory().connect(), 30))
        except BaseException as exc:  # noqa: BLE001
            reference = exc
        finally:
            loop2.close()
        if result["observed"] is None:
            ctx.violation("connect-failure-not-propagated", f"{name}: the context was entered", case)
        elif reference is not None and type(result["observed"]) is not type(reference):
            ctx.violation("connect-failure-not-propagated",
                          f"{name}: transport.connect() raises {type(reference).__name__}, the context raised "
                          f"{type(result['observed']).__name__}", case)
        ctx.clause("connect-failure-no-task-left")
        if result["leftovers"]:
            ctx.violation("saver-leak-on-connect-failure", f"{name} ({type(result['observed']).__name__}): tasks left behind "
                                                           f"{result['leftovers']}", case)


def run_case(ctx, case: dict) -> None:
    workdir = str(scratch_dir("c16"))
    OPTIONS_IN_FORCE.clear()
    OPTIONS_IN_FORCE.update(case.get("options") or {})
    try:
        if "connect_error" in case:
            connect_failure_case(ctx, workdir, case["connect_error"], case["file"])
        elif "traffic_exit" in case:
            traffic_exit_case(ctx, workdir, case["transport"], case["k"], case["traffic_exit"])
        elif "many_sessions" in case:
            many_sessions_case(ctx, workdir, case["many_sessions"])
        elif "late_exit_periods" in case:
            late_exit_case(ctx, workdir, case["late_exit_periods"], case["k"], case["mode"])
        elif "long_horizon_hours" in case:
            long_horizon_case(ctx, workdir, case["long_horizon_hours"])
        elif "rebound_transport" in case:
            rebound_transport_case(ctx, workdir, case["rebound_transport"])
        elif "cancelled_exit" in case:
            cancelled_exit_case(ctx, workdir, case["transport"], case["k"], case["cancelled_exit"], case["file"])
        elif "builtin_connect_failure" in case:
            builtin_connect_failure_case(ctx, workdir, case["builtin_connect_failure"])
        elif "failing_connect_given_up" in case:
            failing_connect_given_up_case(ctx, workdir, *case["failing_connect_given_up"])
        elif "slow_disconnect" in case:
            slow_disconnect_case(ctx, workdir, case["slow_disconnect"], case["mode"])
        elif "cancelled_app_save" in case:
            cancelled_app_save_case(ctx, workdir, case["cancelled_app_save"][0], case["cancelled_app_save"][1])
        elif "split_task" in case:
            split_task_case(ctx, workdir, case["transport"], case["split_task"])
        elif "traffic_cadence_gap" in case:
            traffic_cadence_case(ctx, workdir, case["traffic_cadence_gap"])
        elif "executor_delay" in case:
            slow_disk_case(ctx, workdir, case["executor_delay"], case["k"], case["mode"])
        elif "exact_cadence_periods" in case:
            exact_cadence_case(ctx, workdir, case["exact_cadence_periods"])
        elif "changed_file_between_sessions" in case:
            changed_file_between_sessions_case(ctx, workdir, case["transport"], case["changed_file_between_sessions"])
        elif "multi_loop_sessions" in case:
            multi_loop_sessions_case(ctx, workdir, case["multi_loop_sessions"], case["k"], case["engine"])
        elif "live_traffic" in case:
            live_traffic_case(ctx, workdir, case["live_traffic"][0], case["live_traffic"][1], case["seed"])
        elif case.get("second_session"):
            second_session_case(ctx, workdir, case["transport"], case["k"], case.get("first", "normal"))
        elif "cadence_hours" in case:
            cadence_case(ctx, workdir, case["cadence_hours"], case["seed"])
        elif "connect_failure" in case:
            real_connect_failures(ctx, workdir)
        elif case.get("engine") == "real":
            real_case(ctx, workdir, {k: v for k, v in case.items() if k != "engine"})
        else:
            deterministic_case(ctx, workdir, {k: v for k, v in case.items() if k != "engine"})
    finally:
        shutil.rmtree(workdir, ignore_errors=True)


def run(ctx) -> None:
    workdir = str(scratch_dir("c16"))
    rng = ctx.rng
    try:
        with Reach(ANCHORS) as reach:
            kmax = ctx.pick(40, 200)
            count = 0
            for transport in ("scripted", "mqtt-fake"):
                for mode in ("normal", "body-raises", "disconnect-fails", "both"):
                    for file_state in ("missing", "present", "empty"):
                        for k in range(0, kmax + 1):
                            if not ctx.mine():
                                continue
                            if k > 40 and k % 7:
                                continue
                            change = ("none", "early", "late", "both")[(k + len(mode)) % 4]
                            count += 1
                            deterministic_case(ctx, workdir, {"transport": transport, "mode": mode, "file": file_state,
                                                              "k": k, "change": change})
            ctx.exhaustive["exit-moment-sweep-cases"] = count
            for name in [*CONNECT_ERRORS, "timeout"]:
                for file_state in ("missing", "present"):
                    if ctx.mine():
                        connect_failure_case(ctx, workdir, name, file_state)
            for transport in ("scripted", "mqtt-fake"):
                for ending in ("normal", "body-raises", "listen-transport-failure"):
                    for k in (0, 1, 2, 4, 7, 12, 40):
                        if ctx.mine():
                            traffic_exit_case(ctx, workdir, transport, k, ending)
            for periods in (1, 2, 3):
                for k in range(0, 16):
                    for mode in ("normal", "body-raises"):
                        if ctx.mine():
                            late_exit_case(ctx, workdir, periods, k, mode)
            if ctx.shard_index == (1 % ctx.shard_count):
                long_horizon_case(ctx, workdir, ctx.pick(320, 2000))
            if ctx.shard_index == (2 % ctx.shard_count):
                many_sessions_case(ctx, workdir, ctx.pick(40, 1500))
            for transport in ("scripted", "mqtt-fake"):
                for how in ("cancel", "timeout", "cancel-all-library-first", "cancel-all-session-first"):
                    for k in (0, 1, 2, 3, 5, 8, 13, 30):
                        for file_state in ("missing", "present"):
                            if ctx.mine():
                                cancelled_exit_case(ctx, workdir, transport, k, how, file_state)
            for name in ("mqtt-broker-refuses", "mqtt-subscribe-fails"):
                if ctx.mine():
                    builtin_connect_failure_case(ctx, workdir, name)
            for transport in ("scripted", "mqtt-fake"):
                for k in (0, 1, 3, 8, 20):
                    if ctx.mine():
                        second_session_case(ctx, workdir, transport, k)
            for i, mode in enumerate(("normal", "body-raises")):
                if ctx.mine(i + 2):
                    rebound_transport_case(ctx, workdir, mode)
            for first in ("disconnect-fails", "body-raises", "connect-fails", "final-save-fails"):
                for k in (0, 3):
                    if ctx.mine():
                        second_session_case(ctx, workdir, "scripted", k, first)
            unknown_option_pass(ctx, workdir)
            for i, (give_up_after, how) in enumerate(itertools.product((0.5, 4, 15, 45, 200), ("timeout", "cancel"))):
                if ctx.mine(i):
                    failing_connect_given_up_case(ctx, workdir, give_up_after, how)
            for i, (delay, mode) in enumerate(itertools.product((2, 20, 200, 2000), ("normal", "body-raises"))):
                if ctx.mine(i + 3):
                    slow_disconnect_case(ctx, workdir, delay, mode)
            for i, (delay, at) in enumerate(((4, 605), (10, 300), (2, 880), (20, 450))):
                if ctx.mine(i + 1):
                    cancelled_app_save_case(ctx, workdir, delay, at)
            for i, (transport, variant) in enumerate(itertools.product(
                    ("scripted", "mqtt-fake"), ("file-replaced", "file-replaced-and-registry-cleared", "emptied",
                                                "emptied-then-periodic", "file-removed"))):
                if ctx.mine(i):
                    changed_file_between_sessions_case(ctx, workdir, transport, variant)
            for i, (engine, sessions, k) in enumerate([("vloop", 2, 0), ("vloop", 3, 2), ("real", 2, 1), ("vloop", 2, 7),
                                                       ("real", 3, 0), ("vloop", 4, 1), ("vloop-early", 3, 0), ("vloop-early", 3, 1),
                                                       ("vloop-early", 2, 2), ("vloop-early", 3, 4)]):
                if ctx.mine(i):
                    multi_loop_sessions_case(ctx, workdir, sessions, k, engine)
            for i, (n, c) in enumerate([(150, 60), (60, 20)] + ([(200, 100), (250, 30)] if not ctx.quick else [])):
                if ctx.mine(i + 3):
                    live_traffic_case(ctx, workdir, n, c, ctx.seed * 100 + i)
            if ctx.shard_index == (3 % ctx.shard_count):
                exact_cadence_case(ctx, workdir, ctx.pick(4, 40))
            for i, (transport, how) in enumerate(itertools.product(("scripted", "mqtt-fake"), ("exit-stack", "dunder"))):
                if ctx.mine(i):
                    split_task_case(ctx, workdir, transport, how)
            for i, gap in enumerate((0.5, 2.0, 4.0, 7.0, 30.0)):
                if ctx.mine(i):
                    traffic_cadence_case(ctx, workdir, gap)
            from .. import codedict

            for i, delay in enumerate([d for d in codedict.durations() if d <= 3601]):
                for k in (0, 3, 40):
                    if ctx.mine(i + k):
                        slow_disk_case(ctx, workdir, delay, k, ("normal", "body-raises")[(i + k) % 2])
            # worker threads that do NOT finish in submission order: the n-th file operation since entry lags (its thread
            # starts late, its disk access hangs) while the others take one second - and the context is left meanwhile.
            # Call #1 is the load's open, #2 its read, #3 its close, #4-#6 the saver's open / write / close, then the final save's.
            index = 0
            for lagging in range(1, 10):
                for lag in (2.5, 7, 40):
                    for k in (0, 1, 2, 4, 8, 30):
                        index += 1
                        if ctx.mine(index):
                            pattern = [1.0] * 12
                            pattern[lagging - 1] = lag
                            slow_disk_case(ctx, workdir, pattern, k, ("normal", "body-raises")[index % 2])
            hours = ctx.pick(10, 100)
            if ctx.shard_index < 4:
                cadence_case(ctx, workdir, hours, ctx.seed * 100 + ctx.shard_index)
            # real loop / real thread pool / real time
            if ctx.shard_index == 0:
                real_connect_failures(ctx, workdir)
            n_real = ctx.pick(60, 2000) // ctx.shard_count + 1
            for i in range(n_real):
                transport = ("scripted", "tcp", "serial", "mqtt-fake")[i % 4]
                mode = rng.choice(["normal", "normal", "body-raises"] + (["disconnect-fails", "both"] if transport == "scripted" else []))
                params = {"transport": transport, "mode": mode, "file": rng.choice(["missing", "present", "empty"]),
                          "k": rng.choice([0, 0, 1, 2, 3, 5, 8, 13, 30]), "sleep_s": rng.choice([0, 0, 1e-5, 1e-4, 1e-3, 5e-3]),
                          "change": rng.choice(["none", "early", "late", "both"])}
                if transport == "tcp" and rng.random() < 0.25:
                    params["peer"] = "reset"
                real_case(ctx, workdir, params)
        reach.into(ctx)
    finally:
        shutil.rmtree(workdir, ignore_errors=True)
    for clause in ("exit-exception", "no-task-left", "final-registry-on-disk", "connect-failure-no-task-left"):
        ctx.require(clause, 10)
    # the cancelled-exit cases must reach their oracles (they once all landed in the entry and were only counted)
    ctx.require("cancelled-exit-judged", 60)
    ctx.require("exit-through-task-sweep", 30)
    ctx.require("cancelled-during-entry", 4)
