"""C05 - the active protocol is the newest supported one not newer than the reported version.

Oracle: independent map vf.spec.pmap (integer (major, minor) comparison) + doc-derived type
tables; the agreement invariant protocol == pmap(protocol_version) is asserted after EVERY
step of every lockstep history (vf.lockstep.check_invariants); behaviourally the active rules
are probed with boundary internal/stream type numbers after each report.
"""

from __future__ import annotations

import itertools

from .. import gens, spec
from ..harness import VERSIONS
from ..lscheck import replay_case, run_cases
from ..reach import Reach

LEVEL = "exploration"
SHARDS = {"quick": 6, "thorough": 16}
RULE = ("exhaustive grid major{0,1,2,3,10} x minor{0..6,9,10,15} x patch{-,0,1,2,10} x build{-,0,1} (1500 release "
        "strings) delivered as version reply and as gateway presentation, each followed by boundary type probes "
        "(internal 14,15,17,18,28,29,33,34; stream 5,6); all orders of 1-3 (thorough 4) reports drawn from a pool of "
        "valid and garbage reports mixed with traffic; full type gate -1..40 and 10^20 x internal/stream x 5 versions; "
        "distinct = distinct (initial version, steps); non-trivial = history with >= 2 steps")
ASSUMES = ["version strings that are not plain major.minor[.patch[.build]] releases are an open point: rejected with a "
           "library error leaving version and protocol unchanged, or accepted with version and protocol consistent"]
ANCHORS = ["aiomysensors.model.protocol:get_protocol",
           "aiomysensors.model.protocol.protocol_14:IncomingMessageHandler.handle_i_version",
           "aiomysensors.model.protocol.protocol_14:IncomingMessageHandler.handle_internal",
           "aiomysensors.model.protocol.protocol_14:IncomingMessageHandler.handle_stream"]

PROBES = [f"1;255;3;0;{t};p\n" for t in (14, 15, 17, 18, 28, 29, 33, 34)] + ["1;255;4;0;5;p\n", "1;255;4;0;6;p\n"]
PRE = [["rx", "1;255;0;0;17;2.0\n"]]


def grid():
    for major, minor, patch, build in itertools.product(
            (0, 1, 2, 3, 10), (0, 1, 2, 3, 4, 5, 6, 9, 10, 15), (None, 0, 1, 2, 10), (None, 0, 1)):
        if patch is None and build is not None:
            text = f"{major}.{minor}.0.{build}"
        else:
            text = f"{major}.{minor}" + (f".{patch}" if patch is not None else "") + (
                f".{build}" if build is not None else "")
        yield text


REPORT_POOL = ["1.4", "1.5.0", "2.0.0", "2.1.1", "2.2.0", "2.3.2", "0.9", "", "abc", "2.x", "2.2-beta", "2", "9" * 5000]


def cases(ctx):
    rng = ctx.rng
    count = 0
    strings = list(dict.fromkeys(grid()))
    for text in strings:
        for form in ("0;255;3;0;2;{}\n", "0;255;0;0;18;{}\n"):
            for initial in (None, "1.4", "2.2", "2.0"):
                if not ctx.mine():
                    continue
                count += 1
                steps = PRE + [["rx", form.format(text)]] + [["rx", p] for p in PROBES]
                yield {"version": initial, "steps": steps}
    ctx.exhaustive["release-grid-cases"] = count
    # orders of reports mixed with traffic
    count = 0
    traffic = ["1;0;0;0;6;t\n", "1;0;1;0;0;5\n", "1;255;3;0;22;7\n", "9;0;1;0;0;1\n"]
    for length in range(1, ctx.pick(3, 4) + 1):
        for combo in itertools.permutations(REPORT_POOL, length) if length <= 2 else \
                itertools.product(REPORT_POOL[:9], repeat=length):
            if not ctx.mine():
                continue
            count += 1
            steps = list(PRE)
            for i, report in enumerate(combo):
                form = "0;255;3;0;2;{}\n" if (i + len(combo)) % 2 else "0;255;0;1;18;{}\n"
                steps.append(["rx", form.format(report)])
                steps.append(["rx", traffic[(i + length) % len(traffic)]])
                steps.append(["rx", PROBES[(3 * i + length) % len(PROBES)]])
            yield {"version": None, "steps": steps}
    ctx.exhaustive["report-order-cases"] = count
    # full type gate
    count = 0
    for version in [None, *VERSIONS]:
        for cmd in (3, 4):
            types = [*range(-1, 41), 10**20, -5, 255]
            steps = list(PRE) + [["rx", f"1;255;{cmd};0;{t};1\n"] for t in types if not (cmd == 3 and t in (1, 2, 3, 4, 6))]
            if ctx.mine():
                count += 1
                yield {"version": version, "steps": steps}
    ctx.exhaustive["type-gate-cases"] = count
    # random histories with many version reports
    from .. import histories

    for i in range(ctx.pick(300, 12000) // ctx.shard_count):
        version = [None, *VERSIONS][i % 6]
        gen = histories.HistoryGen(rng, version)
        yield {"version": version, "steps": gen.history(rng.choice([10, 40, 120]), version_reports=0.2)}


def run_case(ctx, case: dict) -> None:
    replay_case(ctx, case)


def run(ctx) -> None:
    with Reach(ANCHORS) as reach:
        run_cases(ctx, cases(ctx))
    reach.into(ctx)
    for clause in ("version-protocol", "outcome"):
        ctx.require(clause, 100)
