"""C05 - the active protocol is the newest supported one not newer than the reported version.

Oracle: independent map vf.spec.pmap (integer (major, minor) comparison) + doc-derived type
tables; the agreement invariant protocol == pmap(protocol_version) is asserted after EVERY
step of every lockstep history (vf.lockstep.check_invariants); behaviourally the active rules
are probed with boundary internal/stream type numbers after each report.
"""

from __future__ import annotations

import itertools

from .. import gens, spec
from ..harness import VERSIONS
from ..lscheck import replay_case, run_cases
from ..reach import Reach

LEVEL = "exploration"
SHARDS = {"quick": 6, "thorough": 16}
RULE = ("exhaustive grid major{0,1,2,3,10} x minor{0..6,9,10,15} x patch{-,0,1,2,10} x build{-,0,1} (1500 release "
        "strings) delivered as version reply and as gateway presentation, each followed by boundary type probes "
        "(internal 14,15,17,18,28,29,33,34; stream 5,6); all orders of 1-3 (thorough 4) reports drawn from a pool of "
        "valid and garbage reports mixed with traffic; full type gate -1..40 and 10^20 x internal/stream x 5 versions; "
        "distinct = distinct (initial version, steps); non-trivial = history with >= 2 steps")
ASSUMES = ["version strings that are not plain major.minor[.patch[.build]] releases are an open point: rejected with a "
           "library error leaving version and protocol unchanged, or accepted with version and protocol consistent"]
ANCHORS = ["aiomysensors.model.protocol:get_protocol",
           "aiomysensors.model.protocol.protocol_14:IncomingMessageHandler.handle_i_version",
           "aiomysensors.model.protocol.protocol_14:IncomingMessageHandler.handle_internal",
           "aiomysensors.model.protocol.protocol_14:IncomingMessageHandler.handle_stream"]

PROBES = [f"1;255;3;0;{t};p\n" for t in (14, 15, 17, 18, 28, 29, 33, 34)] + ["1;255;4;0;5;p\n", "1;255;4;0;6;p\n"]
PRE = [["rx", "1;255;0;0;17;2.0\n"]]


def grid():
    for major, minor, patch, build in itertools.product(
            (0, 1, 2, 3, 10), (0, 1, 2, 3, 4, 5, 6, 9, 10, 15), (None, 0, 1, 2, 10), (None, 0, 1)):
        if patch is None and build is not None:
            text = f"{major}.{minor}.0.{build}"
        else:
            text = f"{major}.{minor}" + (f".{patch}" if patch is not None else "") + (
                f".{build}" if build is not None else "")
        yield text


REPORT_POOL = ["1.4", "1.5.0", "2.0.0", "2.1.1", "2.2.0", "2.3.2", "0.9", "", "abc", "2.x", "2.2-beta", "2", "9" * 5000]
MODIFIER_REPORTS = ["2.2.0-beta", "2.2.0-rc.1", "2.2.0+build", "2.1.0-beta", "2.0.0-beta", "2.0b1", "2.3.2-rc.2", "1.5.0-beta",
                    "2.2.0-alpha.1", "2.4.0-alpha", "2.1.1+exp.sha.5114f85", "2.0.0rc1", "2.2.1.dev3"]


def cases(ctx):
    rng = ctx.rng
    count = 0
    strings = list(dict.fromkeys(grid()))
    for text in strings:
        for form in ("0;255;3;0;2;{}\n", "0;255;0;0;18;{}\n"):
            for initial in (None, "1.4", "2.2", "2.0"):
                if not ctx.mine():
                    continue
                count += 1
                steps = PRE + [["rx", form.format(text)]] + [["rx", p] for p in PROBES]
                yield {"version": initial, "steps": steps}
    ctx.exhaustive["release-grid-cases"] = count
    for text in MODIFIER_REPORTS:
        for form in ("0;255;3;0;2;{}\n", "0;255;0;0;18;{}\n"):
            for initial in (None, "1.4", "2.2", "2.0"):
                if ctx.mine():
                    yield {"version": initial, "steps": PRE + [["rx", form.format(text)]] + [["rx", p] for p in PROBES]}
    # orders of reports mixed with traffic
    count = 0
    traffic = ["1;0;0;0;6;t\n", "1;0;1;0;0;5\n", "1;255;3;0;22;7\n", "9;0;1;0;0;1\n"]
    for length in range(1, ctx.pick(3, 4) + 1):
        for combo in itertools.permutations(REPORT_POOL, length) if length <= 2 else \
                itertools.product(REPORT_POOL[:9], repeat=length):
            if not ctx.mine():
                continue
            count += 1
            steps = list(PRE)
            for i, report in enumerate(combo):
                form = "0;255;3;0;2;{}\n" if (i + len(combo)) % 2 else "0;255;0;1;18;{}\n"
                steps.append(["rx", form.format(report)])
                steps.append(["rx", traffic[(i + length) % len(traffic)]])
                steps.append(["rx", PROBES[(3 * i + length) % len(PROBES)]])
            yield {"version": None, "steps": steps}
    ctx.exhaustive["report-order-cases"] = count
    # full type gate
    count = 0
    for version in [None, *VERSIONS]:
        for cmd in (3, 4):
            types = [*range(-1, 41), 10**20, -5, 255]
            steps = list(PRE) + [["rx", f"1;255;{cmd};0;{t};1\n"] for t in types if not (cmd == 3 and t in (1, 2, 3, 4, 6))]
            if ctx.mine():
                count += 1
                yield {"version": version, "steps": steps}
    ctx.exhaustive["type-gate-cases"] = count
    from .. import histories

    # only VERSION REPORTS move the version: dictionary payloads (string constants / regex examples of the handler modules,
    # e.g. start-up banners that mention a version) in every other message kind the gateway or a node can send leave the
    # state where it was - then the probes show which rules are in force
    candidates = [c for c in histories.dictionary_payloads()[: ctx.pick(150, 800)] if ";" not in c]
    kinds = [f"0;255;3;0;{t};{{}}" for t in (9, 14, 11, 12, 0, 5, 6, 8, 10, 13, 15, 18, 22)] + \
            ["1;255;3;0;9;{}", "1;255;3;0;11;{}", "1;0;1;0;47;{}", "1;0;0;0;6;{}", "1;255;4;0;0;{}"]
    for initial in (None, "2.1"):
        for start in range(0, len(candidates), 8):
            if not ctx.mine():
                continue
            steps = list(PRE)
            for cand in candidates[start:start + 8]:
                for kind in kinds:
                    steps.append(["rx", kind.format(cand) + "\n"])
                steps.append(["rx", PROBES[start % len(PROBES)]])
            yield {"version": initial, "steps": steps}
    # sessions end and begin (cleanly, through a transport error, with a first attempt to come back that is refused or given
    # up): the reported version and the rules in force still agree, probes show which rules those are
    for report in ("2.2.0", "2.3.2", "2.1.1", "2.0.0", "1.5.0", "1.4.1"):
        for form in ("0;255;3;0;2;{}\n", "0;255;0;0;18;{}\n"):
            for how in (None, "transport-error", "connect-refused", "connect-cancelled"):
                if ctx.mine():
                    yield {"version": None, "steps": PRE + [["rx", form.format(report)], ["reenter", how] if how else ["reenter"]]
                           + [["rx", p] for p in PROBES]}
    # random histories with many version reports

    for i in range(ctx.pick(300, 100000) // ctx.shard_count):
        version = [None, *VERSIONS][i % 6]
        gen = histories.HistoryGen(rng, version)
        yield {"version": version, "steps": gen.history(rng.choice([10, 40, 120]), version_reports=0.2)}


BEHAVIOUR = {
    # after a report that selects <proto>, in the SAME running listen() generator: (line, what differs between rule sets)
    "2.0": ["0;255;3;0;14;ready\n", "1;255;3;0;22;5\n", "9;0;1;0;0;1\n"],
    "2.1": ["0;255;3;0;14;ready\n", "1;255;3;0;22;5\n", "9;0;1;0;0;1\n"],
    "2.2": ["0;255;3;0;14;ready\n", "1;255;3;0;32;\n", "1;255;3;0;22;5\n", "9;0;1;0;0;1\n"],
    "1.5": ["0;255;3;0;14;ready\n", "1;255;3;0;15;\n", "9;0;1;0;0;1\n"],
    "1.4": ["0;255;3;0;14;ready\n", "9;0;1;0;0;1\n", "1;255;3;0;15;\n"],
}


def rules_in_force_cases(ctx) -> None:
    """The rules in force (handlers, not only type tables) must follow a report made inside a running generator.

    Differential: the same probes on a gateway whose version was assigned before listen() started; a mismatch
    (any property's clause) that only shows when the report arrives mid-stream is a C05 violation."""
    from ..lscheck import execute

    reports = {"1.4": "1.4", "1.5": "1.5.0", "2.0": "2.0.0", "2.1": "2.1.1", "2.2": "2.3.2"}
    for initial in (None, "1.4", "1.5", "2.0", "2.1", "2.2"):
        for proto, text in reports.items():
            for form in ("0;255;3;0;2;{}\n", "0;255;0;0;18;{}\n"):
                if not ctx.mine():
                    continue
                probes = [["rx", line] for line in BEHAVIOUR[proto]]
                live = {"version": initial, "steps": PRE + [["rx", form.format(text)]] + probes}
                mismatches, _ = execute(live)
                ctx.case(("rules", initial, proto, form), sample=live)
                ctx.clause("rules-in-force-after-report")
                foreign = [m for m in mismatches if m.prop != "C05" and m.step > len(PRE)]
                for m in mismatches:
                    if m.prop == "C05":
                        ctx.violation(m.key, f"step {m.step}: {m.what}", live)
                if not foreign:
                    continue
                preset = {"version": text, "steps": PRE + ([["rx", form.format(text)]] if "0;255;0" in form else []) + probes}
                control, _ = execute(preset)
                if not [m for m in control if m.prop != "C05"]:
                    m = foreign[0]
                    ctx.violation("active-rules-not-those-of-reported-version",
                                  f"after reporting {text!r} inside a running listen() the gateway does not behave by protocol "
                                  f"{proto} rules (step {m.step}, {m.prop}/{m.key}: {m.what}); the same lines on a gateway "
                                  f"whose version was set before listening are handled correctly", live)
                else:
                    ctx.obs("rules-case-other-property-mismatch")


def persistence_entry_cases(ctx) -> None:
    """'1.4 while no version has been reported' also holds right after entering the context with a persistence file
    that remembers the gateway node of an earlier session."""
    import asyncio
    import json
    import os
    import shutil

    from aiomysensors.exceptions import UnsupportedMessageError
    from aiomysensors.gateway import Config, Gateway

    from ..ctx import scratch_dir
    from ..harness import ScriptedTransport, Stepper
    from ..harness import run as arun
    from .c14 import NATIVE

    workdir = str(scratch_dir("c05"))
    try:
        for stored in ("2.2.0", "2.0.0", "1.5.1", "garbage"):
            data = json.loads(json.dumps(NATIVE))
            data["0"]["protocol_version"] = stored
            path = os.path.join(workdir, "p.json")
            with open(path, "w", encoding="utf-8") as fil:
                json.dump(data, fil)
            case = {"kind": "persistence-entry", "stored_gateway_version": stored}

            async def scenario() -> None:
                transport = ScriptedTransport()
                gateway = Gateway(transport, Config(persistence_file=path))
                async with gateway:
                    ctx.clause("no-report-means-1.4")
                    if gateway.protocol_version is not None or gateway.protocol.VERSION != "1.4":
                        ctx.violation("version-assumed-without-report",
                                      f"after entering the context (persisted gateway node version {stored!r}) and before any "
                                      f"report: protocol_version={gateway.protocol_version!r}, active protocol "
                                      f"{gateway.protocol.VERSION}", case)
                        return
                    stepper = Stepper(gateway, transport)
                    kind, value = await stepper.rx("1;255;3;0;15;\n")
                    if not (kind == "error" and isinstance(value, UnsupportedMessageError)):
                        ctx.violation("version-assumed-without-report", "internal type 15 accepted before any version report",
                                      case)
                    if "0;255;3;0;2;\n" not in transport.writes:
                        ctx.violation("version-assumed-without-report", f"no version query while the version is unknown "
                                                                        f"(writes {transport.writes})", case)
                    await stepper.close()

            arun(scenario())
            ctx.case(("persistence-entry", stored), sample=case)
            _ = asyncio
    finally:
        shutil.rmtree(workdir, ignore_errors=True)


def run_case(ctx, case: dict) -> None:
    if case.get("kind") == "persistence-entry":
        persistence_entry_cases(ctx)
    else:
        replay_case(ctx, case)


def run(ctx) -> None:
    with Reach(ANCHORS) as reach:
        run_cases(ctx, cases(ctx))
        rules_in_force_cases(ctx)
        if ctx.shard_index == 0:
            persistence_entry_cases(ctx)
    reach.into(ctx)
    ctx.require("rules-in-force-after-report", 10)
    for clause in ("version-protocol", "outcome"):
        ctx.require(clause, 100)
