"""C12 - send never silently discards a message.

Outcome classification of every send from the boundary log: written-now / library error /
held for a sleeping destination and written at that node's next wake / ELSE violation.
After every non-writing, non-raising send the harness lets other traffic happen (version
reports that switch the protocol, other nodes' wakes, a re-presentation), wakes the destination
and looks for the line.
"""

from __future__ import annotations

import asyncio

import itertools

from .. import spec
from ..harness import FAULT_CLASSES, VERSIONS, Stepper, exc_info, is_library_error, new_gateway
from ..harness import run as arun
from ..reach import Reach

LEVEL = "exploration"
SHARDS = {"quick": 8, "thorough": 16}
RULE = ("5 commands x every type number of the command's table in the active protocol (+ -1, 99, 10^6) x buffering flag "
        "on/off x destination unknown/awake/sleeping x version unknown/1.4/1.5/2.0/2.1/2.2 x ack 0/1, x intervening "
        "traffic between send and wake (none, version report switching protocol, other node's wake, re-presentation of "
        "the destination, battery report); non-message objects (None, str, bytes, dict with the six field names, int, "
        "list, object, duck-typed object, Message subclass); distinct = distinct (state, message, flag, intervening); "
        "non-trivial = all")
ASSUMES = ["messages are those the codec accepts (ranges and cross-field rules)", "in 1.x there is no wake message: a held "
           "command can only be observed as 'not written when sent' (C07)",
           "a duck-typed object carrying the six attributes may be treated as a message or rejected as invalid"]
ANCHORS = ["aiomysensors.gateway:Gateway.send", "aiomysensors.model.protocol:get_outgoing_message_handler",
           "aiomysensors.model.protocol.protocol_14:OutgoingMessageHandler.handle_set",
           "aiomysensors.model.protocol.protocol_14:OutgoingMessageHandler.handle_internal"]

DEST = 4
OTHER = 9
INTERVENING = {
    "none": [],
    "version-2.2": ["0;255;3;0;2;2.2.0"],
    "version-2.0-presentation": ["0;255;0;0;18;2.0.1"],
    "version-2.1": ["0;255;3;0;2;2.1.0"],
    "other-wake": ["{other};255;3;0;{wake};1"],
    "re-presentation": ["{dest};255;0;0;17;2.1"],
    "battery": ["{dest};255;3;0;0;50"],
    "garbage-version": ["0;255;3;0;2;garbage"],
    "reconnect": [],  # handled specially: the application leaves and re-enters the gateway context
    "wake-write-fault": [],  # handled specially: a second command is held too and the first flush write fails
}


def type_numbers(version: str, cmd: int) -> list[int]:
    extra = [-1, 99, 10**6]
    if cmd == 0:
        return [*range(0, 40), *extra]
    if cmd in (1, 2):
        return [*range(0, 57), *extra]
    if cmd == 3:
        return [*range(0, spec.INTERNAL_MAX[version] + 1), *extra]
    return [*range(0, 6), *extra]


async def send_case(ctx, case: dict) -> None:
    from aiomysensors.model.message import Message
    from aiomysensors.model.node import Child, Node

    version = case["version"]
    gateway, transport = new_gateway(version)
    stepper = Stepper(gateway, transport)
    state = case["dest"]
    gateway.nodes[OTHER] = Node(OTHER, 17, "2.0", children={0: Child(0, 3)}, sleeping=True)
    if state not in ("unknown", "episode-open"):
        gateway.nodes[DEST] = Node(DEST, 17, "2.0", children={0: Child(0, 3), 7: Child(7, 3)},
                                   sleeping=(state == "sleeping"))
    if state in ("episode-open", "child-episode-open"):
        # a message from the unknown node / for an unknown child opened a presentation-request episode (2.x)
        await stepper.rx(f"{DEST};9;1;0;0;1\n")
        transport.take_writes()
    fields = tuple(case["fields"])
    line = ";".join(str(f) for f in fields) + "\n"
    # what the destination last reported for this (child, type) is no reason to drop a command: a third of the set
    # commands go to a child that already holds exactly this payload, a third to one that holds another (round 15)
    stored_mode = sum(map(ord, line)) % 3
    dest_node = gateway.nodes.get(fields[0]) if isinstance(fields[0], int) else None
    if fields[2] == 1 and dest_node is not None and fields[1] in dest_node.children and isinstance(fields[4], int):
        if stored_mode == 1:
            dest_node.children[fields[1]].values[fields[4]] = str(fields[5])
            ctx.obs("dest-child-already-holds-sent-value")
        elif stored_mode == 2:
            dest_node.children[fields[1]].values[fields[4]] = "previous"
            ctx.obs("dest-child-holds-other-value")
    kwargs = {} if case["buffered"] is None else {"message_buffer": case["buffered"]}
    kind, exc = await stepper.tx(Message(*fields), **kwargs)
    writes = transport.take_writes()
    loose = not isinstance(fields[5], str)
    head = ";".join(str(f) for f in fields[:5]) + ";"

    def resolve(candidates: list[str]) -> None:
        # a payload the application gave as a number: however the codec spells it, the line is this message's
        nonlocal line
        if loose:
            for w in candidates:
                if w.startswith(head):
                    line = w
                    return

    resolve(writes)
    ctx.case((version, state, tuple(map(repr, fields)) if loose else fields, case["buffered"], case["intervening"]), sample=case)
    ctx.clause("send-classified")
    if kind == "error":
        if is_library_error(exc):
            ctx.obs("outcome:library-error:" + type(exc).__name__)
        else:
            info = exc_info(exc)
            key = "send-foreign-exception-" + info["class"]
            if info["class"] == "AttributeError" and fields[2] in (0, 2, 4):
                key = "send-no-outgoing-handler"
            ctx.violation(key, f"send({fields!r:.60}) raised {info['class']}: {exc!s:.100}", case)
        await stepper.close()
        return
    if line in writes:
        ctx.obs("outcome:written-now")
        if len(writes) != 1:
            ctx.violation("send-extra-writes", f"send({fields!r:.60}) wrote {writes}", case)
        await stepper.close()
        return
    if writes:
        ctx.violation("send-altered", f"send({fields!r:.60}) wrote {writes} instead of {line!r}", case)
        await stepper.close()
        return
    # nothing written, nothing raised: must be held for a sleeping destination
    if state != "sleeping":
        key = "internal-parked-forever" if fields[2] == 3 else "silently-discarded"
        ctx.violation(key, f"send({fields!r:.60}, message_buffer={case['buffered']}) to a destination that is "
                           f"{state}: nothing written, nothing raised", case)
        await stepper.close()
        return
    ctx.obs("outcome:held")
    proto = gateway.protocol.VERSION
    wake = 32 if proto == "2.2" else 22
    if case["intervening"] == "wake-write-fault" and spec.is2x(proto):
        other_fields = (DEST, 7 if fields[1] != 7 else 0, 1, 0, 40, "second")
        other_line = ";".join(str(f) for f in other_fields) + "\n"
        await stepper.tx(Message(*other_fields))
        transport.take_writes()
        transport.fail_attempts = {transport.attempts}
        transport.fault_class = FAULT_CLASSES[sum(map(ord, line)) % len(FAULT_CLASSES)]
        await stepper.rx(f"{DEST};255;3;0;{wake};1\n")
        transport.fail_attempts = set()
        await stepper.rx(f"{DEST};255;3;0;{wake};1\n")
        await stepper.rx(f"{DEST};255;3;0;{wake};1\n")
        attempted = [e[2] for e in transport.events if e[0] == "write-call"]
        ctx.clause("held-written-at-wake")
        for wanted in (line, other_line):
            if wanted not in attempted:
                ctx.violation("held-message-lost-after-write-fault",
                              f"{wanted!r} was held for sleeping node {DEST}; the first write of its wake flush failed and "
                              f"it was never handed to the transport at this or the following wakes (attempts {attempted})",
                              case)
        await stepper.close()
        return
    if case["intervening"] == "reconnect":
        await stepper.close()
        await gateway.__aexit__(None, None, None)
        await gateway.__aenter__()
    for template in INTERVENING[case["intervening"]]:
        await stepper.rx(template.format(dest=DEST, other=OTHER, wake=wake) + "\n")
    proto = gateway.protocol.VERSION
    if not spec.is2x(proto):
        ctx.obs("held-in-1.x-no-wake-message")
        await stepper.close()
        return
    between = transport.take_writes()
    if line in between:
        ctx.violation("held-written-before-wake", f"held line {line!r} written by intervening traffic", case)
    wake = 32 if proto == "2.2" else 22
    await stepper.rx(f"{DEST};255;3;0;{wake};1\n")
    after = transport.take_writes()
    resolve(after)
    ctx.clause("held-written-at-wake")
    if after.count(line) != 1:
        key = "internal-parked-forever" if fields[2] == 3 else "held-message-lost"
        ctx.violation(key, f"send({fields!r:.60}) was held for sleeping node {DEST} but its next wake (protocol {proto}, "
                           f"after {case['intervening']}) wrote {after}", case)
    await stepper.close()


async def fault_send_case(ctx, case: dict) -> None:
    """The transport fails the write of a send: the caller gets a library error - and then that must be the END of it
    ('exactly one of three ways'): the line is not also kept and written at a later wake."""
    from aiomysensors.model.message import Message
    from aiomysensors.model.node import Child, Node

    version = case["version"]
    gateway, transport = new_gateway(version)
    stepper = Stepper(gateway, transport)
    if case["dest"] != "unknown":
        gateway.nodes[DEST] = Node(DEST, 17, "2.0", children={0: Child(0, 3), 7: Child(7, 3)},
                                   sleeping=(case["dest"] == "sleeping"))
    fields = tuple(case["fields"])
    line = ";".join(str(f) for f in fields) + "\n"
    kwargs = {} if case["buffered"] is None else {"message_buffer": case["buffered"]}
    transport.fail_attempts = {transport.attempts}
    # the failure class rotates through the documented family (deterministic in the case)
    transport.fault_class = case.get("fault_class") or FAULT_CLASSES[(sum(map(ord, line)) + len(case["dest"])) % len(FAULT_CLASSES)]
    ctx.obs("fault-class:" + transport.fault_class)
    kind, exc = await stepper.tx(Message(*fields), **kwargs)
    transport.fail_attempts = set()
    attempted = [e[2] for e in transport.events if e[0] == "write-call"]
    transport.take_writes()
    ctx.case(("fault-send", version, case["dest"], fields, case["buffered"]), sample=case)
    ctx.clause("failed-write-classified")
    if line in attempted:
        if kind != "error":
            ctx.violation("write-fault-swallowed", f"the write of send({fields!r:.60}) failed but send returned normally", case)
        elif not is_library_error(exc):
            ctx.violation("send-foreign-exception-" + type(exc).__name__, f"failed write surfaced as {type(exc).__name__}", case)
    proto = gateway.protocol.VERSION
    if kind == "error" and spec.is2x(proto) and DEST in gateway.nodes:
        wake = 32 if proto == "2.2" else 22
        await stepper.rx(f"{DEST};255;3;0;{wake};1\n")
        await stepper.rx(f"{DEST};255;3;0;{wake};1\n")
        later = transport.take_writes()
        ctx.clause("errored-send-not-written-later")
        if line in later:
            ctx.violation("errored-send-written-later",
                          f"send({fields!r:.60}) raised {type(exc).__name__} (its write failed) and yet the line was written at the "
                          f"destination's later wake: {later}", case)
    await stepper.close()


def mqtt_send_case(ctx, case: dict) -> None:
    """send() through the built-in MQTT client transport (fake aiomqtt client): when send returns the publish has
    happened; when the broker refuses the publish, send raises a library error - for ack 0 and ack 1 alike."""
    import asyncio

    from aiomqtt import MqttError

    from aiomysensors.gateway import Gateway
    from aiomysensors.model.message import Message
    from aiomysensors.transport.mqtt import MQTTClient

    from ..mqttfake import FakeClient, install
    from ..vloop import LogicalDeadlock, run_virtual

    log: dict = {}

    async def scenario() -> None:
        transport = MQTTClient("broker.invalid", 1883, in_prefix="in", out_prefix="out")
        gateway = Gateway(transport)
        if case["version"]:
            gateway.protocol_version = case["version"]
        await transport.connect()
        client = FakeClient.instances[-1]
        if case["publish_fails"]:
            FakeClient.publish_error = MqttError("publish refused")
        before = len(client.published)
        try:
            await gateway.send(Message(*case["fields"]))
            log["outcome"] = "ok"
        except Exception as exc:  # noqa: BLE001
            log["outcome"] = "library-error" if is_library_error(exc) else "foreign:" + type(exc).__name__
        log["published_at_return"] = len(client.published) - before
        FakeClient.publish_error = None
        for _ in range(5):
            await asyncio.sleep(0)
        log["published_later"] = len(client.published) - before
        await transport.disconnect()

    with install() as seam:
        if not seam:
            ctx.skip("mqtt-send", "no aiomqtt client seam")
            return
        result, _loop = run_virtual(scenario)
    ctx.case(("mqtt-send", case["version"], tuple(case["fields"]), case["publish_fails"]), sample=case)
    ctx.clause("mqtt-send-classified")
    if isinstance(result, LogicalDeadlock):
        ctx.violation("mqtt-send-deadlock", "logical deadlock", case)
    elif isinstance(result, BaseException):
        from ..harness import scenario_exception

        scenario_exception(ctx, result, case, "mqtt-send")
    elif case["publish_fails"]:
        if log["outcome"] == "ok":
            ctx.violation("silently-discarded", f"send({case['fields']}) over MQTT returned normally although the broker refused "
                                                f"the publish (nothing was published, no error raised)", case)
        elif log["outcome"].startswith("foreign"):
            ctx.violation("send-foreign-exception-" + log["outcome"].split(":")[1], f"publish failure surfaced as {log['outcome']}", case)
    elif log["outcome"] == "ok" and log["published_at_return"] != 1:
        ctx.violation("send-returned-before-publish", f"send({case['fields']}) returned with {log['published_at_return']} publishes "
                                                      f"done ({log['published_later']} after further loop iterations)", case)


async def reuse_case(ctx, case: dict) -> None:
    """An application keeps one Message object, changes its fields and sends it again: every send must carry the
    fields the object has at the moment of the call."""
    from aiomysensors.model.message import Message
    from aiomysensors.model.node import Child, Node

    version = case["version"]
    gateway, transport = new_gateway(version)
    stepper = Stepper(gateway, transport)
    gateway.nodes[DEST] = Node(DEST, 17, "2.0", children={0: Child(0, 3), 7: Child(7, 3)}, sleeping=case["sleeping"])
    message = Message(DEST, 0, 1, 0, 2, "first")
    expected = []
    for change in case["changes"]:
        for attr, value in change.items():
            setattr(message, attr, value)
        expected.append(";".join(str(x) for x in (message.node_id, message.child_id, message.command, message.ack,
                                                  message.message_type, message.payload)) + "\n")
        kind, exc = await stepper.tx(message)
        if kind == "error":
            ctx.violation("send-raised", f"re-sending a changed Message raised {type(exc).__name__}", case)
            await stepper.close()
            return
    proto = gateway.protocol.VERSION
    if case["sleeping"] and spec.is2x(proto):
        wake = 32 if proto == "2.2" else 22
        await stepper.rx(f"{DEST};255;3;0;{wake};1\n")
    writes = transport.take_writes()
    ctx.case(("reuse", version, case["sleeping"], repr(case["changes"])), sample=case)
    ctx.clause("reused-message-object")
    if case["sleeping"]:
        # per key only the latest value has to go out (C07); every written line must be one of the lines sent
        latest = {}
        for line in expected:
            parts = line.split(";")
            latest[(parts[0], parts[1], parts[4])] = line
        if spec.is2x(proto) and sorted(writes) != sorted(latest.values()):
            ctx.violation("reused-message-stale-line", f"one Message object changed and re-sent {len(expected)} times to a sleeping "
                                                       f"node: wake wrote {writes}, expected {sorted(latest.values())}", case)
    elif writes != expected:
        ctx.violation("reused-message-stale-line", f"one Message object changed and re-sent: wrote {writes}, expected {expected}",
                      case)
    await stepper.close()


async def mass_park_case(ctx, case: dict) -> None:
    """Scale: thousands of distinct (node, child, type) commands held at once for several sleeping nodes; after every
    node woke, every accepted send has reached the transport exactly once."""
    from aiomysensors.model.message import Message
    from aiomysensors.model.node import Child, Node

    version = case["version"]
    gateway, transport = new_gateway(version)
    stepper = Stepper(gateway, transport)
    n_nodes, n_children, n_types = case["shape"]
    for n in range(1, n_nodes + 1):
        gateway.nodes[n] = Node(n, 17, "2.0", children={c: Child(c, 3) for c in range(n_children)}, sleeping=True)
    accepted = []
    for n in range(1, n_nodes + 1):
        for c in range(n_children):
            for t in range(n_types):
                line = f"{n};{c};1;0;{t};m{n}.{c}.{t}\n"
                kind, exc = await stepper.tx(Message(n, c, 1, 0, t, f"m{n}.{c}.{t}"))
                if kind == "ok":
                    accepted.append(line)
                elif not is_library_error(exc):
                    ctx.violation("send-foreign-exception-" + type(exc).__name__, f"send #{len(accepted)} raised {type(exc).__name__}", case)
                    await stepper.close()
                    return
    early = transport.take_writes()
    wake = 32 if version == "2.2" else 22
    for n in range(1, n_nodes + 1):
        await stepper.rx(f"{n};255;3;0;{wake};1\n")
    written = early + transport.take_writes()
    ctx.case(("mass-park", version, tuple(case["shape"])), sample=case)
    ctx.clause("mass-park-delivered")
    missing = sorted(set(accepted) - set(written))
    duplicated = len(written) - len(set(written))
    if missing or duplicated:
        ctx.violation("held-message-lost", f"{len(accepted)} set commands were accepted for {n_nodes} sleeping nodes; after all of them "
                                           f"woke {len(missing)} never reached the transport (e.g. {missing[:2]}), {duplicated} duplicates",
                      case)
    await stepper.close()


async def pair_case(ctx, case: dict) -> None:
    """Two sends to a sleeping destination before its wake: neither may be silently discarded
    (a set superseded by a newer set for the same child and type is the only stated exception, C07)."""
    from aiomysensors.model.message import Message
    from aiomysensors.model.node import Child, Node

    version = case["version"]
    gateway, transport = new_gateway(version)
    stepper = Stepper(gateway, transport)
    gateway.nodes[DEST] = Node(DEST, 17, "2.0", children={0: Child(0, 3), 7: Child(7, 3)}, sleeping=True)
    lines = []
    outcomes = []
    for fields in case["sends"]:
        line = ";".join(str(f) for f in fields) + "\n"
        kind, exc = await stepper.tx(Message(*fields))
        writes = transport.take_writes()
        lines.append(line)
        if kind == "error":
            outcomes.append("error" if is_library_error(exc) else "foreign:" + type(exc).__name__)
        elif line in writes:
            outcomes.append("written")
        else:
            outcomes.append("held")
    wake = 32 if gateway.protocol.VERSION == "2.2" else 22
    await stepper.rx(f"{DEST};255;3;0;{wake};1\n")
    after = transport.take_writes()
    ctx.case(("pair", version, repr(case["sends"])), sample=case)
    ctx.clause("pair-of-sends-classified")
    (a, b) = case["sends"]
    superseded = a[2] == 1 and b[2] == 1 and a[:2] == b[:2] and a[4] == b[4]
    for index, (line, outcome) in enumerate(zip(lines, outcomes)):
        if outcome.startswith("foreign"):
            ctx.violation("send-foreign-exception-" + outcome.split(":")[1], f"send({case['sends'][index]}) raised {outcome}", case)
        elif outcome == "held":
            if index == 0 and superseded:
                continue
            if after.count(line) != 1:
                ctx.violation("held-message-lost", f"sends {case['sends']} to sleeping node {DEST}: {line!r} was held but the "
                                                   f"node's next wake wrote {after}", case)
    await stepper.close()


async def nonmessage_case(ctx, case: dict) -> None:
    from aiomysensors.exceptions import InvalidMessageError
    from aiomysensors.model.message import Message

    class Duck:
        node_id, child_id, command, ack, message_type, payload = 4, 0, 1, 0, 2, "duck"

    class Sub(Message):
        pass

    objects = {
        "None": None, "str": "4;0;1;0;2;x\n", "bytes": b"4;0;1;0;2;x\n", "int": 5, "list": [4, 0, 1, 0, 2, "x"],
        "dict-six-fields": {"node_id": 4, "child_id": 0, "command": 1, "ack": 0, "message_type": 2, "payload": "d"},
        "dict-empty": {}, "object": object(), "tuple": (4, 0, 1, 0, 2, "x"), "duck": Duck(), "subclass": Sub(4, 0, 1, 0, 2, "s"),
        "class": Message, "float": 1.5, "dict-partial": {"node_id": 4},
    }
    obj = objects[case["object"]]
    gateway, transport = new_gateway(case["version"])
    stepper = Stepper(gateway, transport)
    kwargs = {} if case["buffered"] is None else {"message_buffer": case["buffered"]}
    kind, exc = await stepper.tx(obj, **kwargs)
    writes = transport.take_writes()
    ctx.case(("nonmsg", case["version"], case["object"], case["buffered"]), sample=case)
    ctx.clause("nonmessage-rejected")
    name = case["object"]
    if name == "subclass":
        if kind != "ok" or writes != ["4;0;1;0;2;s\n"]:
            ctx.violation("message-subclass-not-sent", f"Message subclass: {kind} {exc!r} writes {writes}", case)
    elif name == "duck":
        ok = (kind == "ok" and writes == ["4;0;1;0;2;duck\n"]) or (kind == "error" and isinstance(exc, InvalidMessageError))
        if not ok:
            ctx.violation("duck-object-mishandled", f"duck-typed object: {kind} {type(exc).__name__} writes {writes}", case)
    elif kind != "error" or not isinstance(exc, InvalidMessageError):
        key = "send-mapping-attributeerror" if name.startswith("dict") and isinstance(exc, AttributeError) else \
            "nonmessage-not-rejected-as-invalid"
        ctx.violation(key, f"send({name}) -> {kind} {type(exc).__name__ if exc else ''}({exc!s:.80}) writes {writes}", case)
    elif writes:
        ctx.violation("nonmessage-wrote", f"send({name}) wrote {writes}", case)
    await stepper.close()


def cases(ctx):
    count = 0
    for version in [None, *VERSIONS]:
        proto = version or "1.4"
        for cmd in range(5):
            for mtype in type_numbers(proto, cmd):
                children = [255, 0] if cmd == 0 else ([0, 7] if cmd in (1, 2) else [255])
                if cmd == 3 and mtype in (3, 4):
                    children = [255, 3]
                states = ("unknown", "awake", "sleeping") + (("episode-open", "child-episode-open") if cmd == 3 else ())
                for child, dest, buffered in itertools.product(children, states, (None, True, False)):
                    if not ctx.mine():
                        continue
                    if not spec.rules_ok(DEST, child, cmd, 0, mtype):
                        continue
                    ack = (mtype + child) % 2
                    inter = ["none"]
                    if dest == "sleeping" and buffered is not False and cmd == 1:
                        inter = list(INTERVENING) if (mtype % 8 == 2 or not ctx.quick) else ["none", "version-2.2"]
                    for name in inter:
                        count += 1
                        yield {"version": version, "dest": dest, "fields": [DEST, child, cmd, ack, mtype, f"pl{mtype}"],
                               "buffered": buffered, "intervening": name}
    ctx.exhaustive["send-space"] = count
    # payloads given the way applications have them - a number, not its text (the codec accepts them): written, held or a
    # library error like any other message
    for version in [None, *VERSIONS]:
        for payload in (1, 0, 21.5, -3, 10 ** 12):
            for (child, cmd, mtype), dest, buffered in itertools.product(((0, 1, 2), (0, 1, 0), (0, 2, 2), (255, 3, 13), (255, 3, 6)),
                                                                         ("unknown", "awake", "sleeping"), (None, False)):
                if ctx.mine():
                    yield {"version": version, "dest": dest, "fields": [DEST, child, cmd, 0, mtype, payload],
                           "buffered": buffered, "intervening": "none"}


async def in_flight_duplicate_case(ctx, case: dict) -> None:
    """While the wake flush has a parked command's write pending, the application sends another command for the same key -
    a SEPARATE Message object, with the same or a different payload / ack.  That send returns normally without a write
    (the node is still flagged sleeping), so it is 'held for a sleeping destination' and must be handed to the transport
    at the node's next wake: an accepted send is never dropped, also when it spells the same six fields as the line in
    flight."""
    from aiomysensors.model.message import Message
    from aiomysensors.model.node import Child, Node

    version = case["version"]
    gateway, transport = new_gateway(version)
    stepper = Stepper(gateway, transport)
    gateway.nodes[DEST] = Node(DEST, 17, "2.0", children={0: Child(0, 3), 7: Child(7, 3)}, sleeping=True)
    wake = 32 if gateway.protocol.VERSION == "2.2" else 22
    first = tuple(case["first"])
    second = tuple(case["second"])
    await stepper.tx(Message(*first))
    transport.take_writes()
    transport.gate = True
    listener = asyncio.ensure_future(stepper.rx(f"{DEST};255;3;0;{wake};1\n"))
    for _ in range(50):
        await asyncio.sleep(0)
        if transport.pending:
            break
    ctx.case(("in-flight-duplicate", version, first, second, case["complete"]), sample=case)
    if not transport.pending:
        ctx.obs("in-flight-duplicate:flush-write-never-pending")
        transport.gate = False
        await listener
        await stepper.close()
        return
    kind, exc = await stepper.tx(Message(*second))
    wrote_now = [e[2] for e in transport.events if e[0] == "write-call"][1:]
    future, _line, _attempt = transport.pending.pop(0)
    future.set_result(case["complete"] == "fails")
    transport.gate = False
    for pending in list(transport.pending):
        transport.pending.remove(pending)
        pending[0].set_result(False)
    await listener
    for _ in range(2):
        await stepper.rx(f"{DEST};255;3;0;{wake};1\n")
    calls = [e[2] for e in transport.events if e[0] == "write-ok"]
    ctx.clause("send-during-in-flight-write")
    second_line = ";".join(str(f) for f in second) + "\n"
    first_line = ";".join(str(f) for f in first) + "\n"
    if kind != "ok":
        ctx.obs("in-flight-duplicate:send-raised")
    elif first_line == second_line:
        expected = 2 if case["complete"] == "ok" else 1
        # written once by the flush that was in flight (if it completed) and once for the accepted second send; a failed
        # first write leaves ONE parked entry for the key (the newer object), written once
        if calls.count(second_line) < expected and not wrote_now:
            ctx.violation("silently-discarded", f"a second, separate send of {second!r:.60} was accepted while the identical "
                                                f"parked command's flush write was pending ({case['complete']}); the line "
                                                f"reached the transport {calls.count(second_line)} time(s), expected {expected}",
                          case)
    elif second_line not in calls:
        ctx.violation("silently-discarded", f"send of {second!r:.60} accepted while the flush write of {first!r:.60} was pending; "
                                            f"never written at the next two wakes (writes {calls!r:.160})", case)
    await stepper.close()


def run_case(ctx, case: dict) -> None:
    from .. import harness

    with harness.options(case.get("config_extra")):
        _run_case(ctx, case)


def _run_case(ctx, case: dict) -> None:
    if case.get("kind") == "slow-write-send":
        slow_write_send_case(ctx, case)
    elif case.get("kind") == "resend-after-release":
        arun(resend_after_release_case(ctx, case))
    elif case.get("kind") == "vanished-child":
        arun(vanished_child_case(ctx, case))
    elif case.get("kind") == "in-flight-duplicate":
        arun(in_flight_duplicate_case(ctx, case))
    elif case.get("kind") == "mass-park":
        arun(mass_park_case(ctx, case))
    elif case.get("kind") == "reuse":
        arun(reuse_case(ctx, case))
    elif case.get("kind") == "mqtt-send":
        mqtt_send_case(ctx, case)
    elif case.get("kind") == "fault-send":
        arun(fault_send_case(ctx, case))
    elif "sends" in case:
        arun(pair_case(ctx, case))
    elif "object" in case:
        arun(nonmessage_case(ctx, case))
    else:
        arun(send_case(ctx, case))


def slow_write_send_case(ctx, case: dict) -> None:
    """The transport takes `seconds` (virtual) to accept the line of a send - the peer is not reading, the broker is slow -
    and then accepts it.  The send still ends in one of the three ways: it returns after the write, or it raises a LIBRARY
    error (a give-up is fine, a builtin TimeoutError is not)."""
    from aiomysensors.model.message import Message
    from aiomysensors.model.node import Child, Node

    from .. import harness
    from ..vloop import LogicalDeadlock, run_virtual

    box: dict = {}

    async def scenario() -> None:
        with harness.options(case.get("config_extra") if "config_extra" in case else dict(harness.CONFIG_EXTRA)):
            gateway, transport = new_gateway(case["version"])
        gateway.nodes[DEST] = Node(DEST, 17, "2.0", children={0: Child(0, 3)})
        transport.gate = True
        task = asyncio.ensure_future(gateway.send(Message(*case["fields"])))
        waited = 0.0
        while waited < case["seconds"] and not task.done():
            step = max(0.5, case["seconds"] / 40)
            await asyncio.sleep(step)
            waited += step
        box["done_before_release"] = task.done()
        while not task.done():
            for future, _line, _attempt in list(transport.pending):
                if not future.done():
                    future.set_result(False)
            transport.pending.clear()
            await asyncio.sleep(0)
        try:
            await task
            box["outcome"] = "ok"
        except Exception as exc:  # noqa: BLE001
            box["outcome"] = exc
        box["writes"] = list(transport.writes)

    result, _loop = run_virtual(scenario)
    ctx.case(("slow-write-send", case["version"], tuple(case["fields"]), case["seconds"],
              repr(sorted((case.get("config_extra") or {}).items()))), sample=case)
    if isinstance(result, LogicalDeadlock):
        ctx.violation("send-deadlock", f"logical deadlock in {case}", case)
        return
    if isinstance(result, BaseException):
        from ..harness import scenario_exception

        scenario_exception(ctx, result, case, "slow-write-send")
        return
    ctx.clause("send-with-a-slow-write")
    outcome = box["outcome"]
    if isinstance(outcome, BaseException) and not is_library_error(outcome):
        ctx.violation("send-foreign-exception-" + type(outcome).__name__,
                      f"the write of send({case['fields']}) stayed pending for {case['seconds']} virtual seconds: send raised "
                      f"{type(outcome).__name__}({outcome!s:.60})", case)


async def resend_after_release_case(ctx, case: dict) -> None:
    """One Message object (a constant like LIGHT_ON, or one object whose payload the application updates) sent to a sleeping
    node, released at a wake, sent AGAIN, and so on: every send is held and released once at the following wake."""
    from aiomysensors.model.message import Message
    from aiomysensors.model.node import Child, Node

    version = case["version"]
    gateway, transport = new_gateway(version)
    stepper = Stepper(gateway, transport)
    gateway.nodes[DEST] = Node(DEST, 17, "2.0", children={0: Child(0, 3)}, sleeping=True)
    wake = 32 if gateway.protocol.VERSION == "2.2" else 22
    message = Message(DEST, 0, 1, case["ack"], 2, "on")
    released = []
    for round_ in range(case["rounds"]):
        if case["update_payload"]:
            message.payload = f"level-{round_}"
        kind, exc = await stepper.tx(message)
        sent_now = transport.take_writes()
        await stepper.rx(f"{DEST};255;3;0;{wake};1\n")
        released.append((kind, sent_now, transport.take_writes()))
        if case["fail_between"] and round_ == 0:
            transport.fail_attempts = {transport.attempts}
            await stepper.tx(Message(DEST, 0, 1, 0, 3, "other"))
            await stepper.rx(f"{DEST};255;3;0;{wake};1\n")
            transport.fail_attempts = set()
            await stepper.rx(f"{DEST};255;3;0;{wake};1\n")
            transport.take_writes()
    ctx.case(("resend-after-release", version, case["ack"], case["rounds"], case["update_payload"], case["fail_between"]), sample=case)
    ctx.clause("same-object-sent-again-after-release")
    for round_, (kind, sent_now, at_wake) in enumerate(released):
        want = f"{DEST};0;1;{case['ack']};2;" + (f"level-{round_}" if case["update_payload"] else "on") + "\n"
        if kind != "ok" or sent_now or at_wake.count(want) != 1:
            ctx.violation("held-message-lost" if not at_wake.count(want) else "send-altered",
                          f"send #{round_} of one Message object to sleeping node {DEST}: outcome {kind}, written at send time "
                          f"{sent_now}, released at the following wake {at_wake} (expected {want!r} once)", case)
            break
    await stepper.close()


async def vanished_child_case(ctx, case: dict) -> None:
    """Commands are held for two children of a sleeping node; then the application removes ONE child from the registry (or
    the node presents itself again and only the other child is presented again).  The command for the child that is still
    there was accepted and held: it is handed to the transport at one of the next wakes, whatever becomes of the stale one."""
    from aiomysensors.model.message import Message
    from aiomysensors.model.node import Child, Node

    version = case["version"]
    gateway, transport = new_gateway(version)
    stepper = Stepper(gateway, transport)
    gateway.nodes[DEST] = Node(DEST, 17, "2.0", children={0: Child(0, 3), 7: Child(7, 3)}, sleeping=True)
    stale, kept = (0, 7) if case["stale_first"] else (7, 0)
    order = [stale, kept] if case["stale_first"] else [kept, stale]
    lines = {}
    for child in order:
        fields = (DEST, child, 1, 0, 2, f"for-child-{child}")
        lines[child] = ";".join(str(f) for f in fields) + "\n"
        await stepper.tx(Message(*fields))
    transport.take_writes()
    if case["how"] == "child-removed":
        del gateway.nodes[DEST].children[stale]
    else:
        await stepper.rx(f"{DEST};255;0;0;17;2.0\n")
        await stepper.rx(f"{DEST};{kept};0;0;3;again\n")
        gateway.nodes[DEST].sleeping = True
    wake = 32 if gateway.protocol.VERSION == "2.2" else 22
    outcomes = []
    for _ in range(3):
        kind, exc = await stepper.rx(f"{DEST};255;3;0;{wake};1\n")
        outcomes.append(kind if kind != "error" else type(exc).__name__)
        if kind == "error" and not is_library_error(exc):
            ctx.violation("send-foreign-exception-" + type(exc).__name__, f"wake after a child vanished raised {type(exc).__name__}", case)
    written = transport.take_writes()
    ctx.case(("vanished-child", version, case["how"], case["stale_first"], repr(sorted((case.get("config_extra") or {}).items()))),
             sample=case)
    ctx.clause("held-for-a-child-that-is-still-there")
    if written.count(lines[kept]) != 1:
        ctx.violation("held-message-lost", f"commands were held for children {order} of sleeping node {DEST}, child {stale} "
                                           f"vanished ({case['how']}): the command for child {kept} was written "
                                           f"{written.count(lines[kept])} times at the next three wakes (outcomes {outcomes})", case)
    await stepper.close()


def unknown_option_pass(ctx) -> None:
    """'For every message the codec accepts and every gateway state': with every Config option this harness does not
    know set to a non-default value, every send still ends in one of the three ways (pairs of sends to a sleeping node,
    a slice of the send matrix, duplicates in flight)."""
    from .. import harness

    options = harness.unknown_options()
    ctx.obs("unknown-config-options", len(options))
    pool = [[DEST, 0, 1, 0, 2, "s1"], [DEST, 0, 2, 0, 2, ""], [DEST, 0, 1, 1, 3, "s2"], [DEST, 7, 2, 0, 2, ""],
            [DEST, 255, 3, 0, 13, ""], [DEST, 0, 2, 1, 3, ""], [DEST, 0, 1, 0, 2, "s3"]]
    for index, extra in enumerate(options):
        if not ctx.mine(index):
            continue
        with harness.options(extra):
            for version in VERSIONS:
                for a, b in itertools.product(pool, repeat=2):
                    if version.startswith("2"):  # 1.x has no wake message: a held command cannot be observed there
                        arun(pair_case(ctx, {"version": version, "sends": [a, [*b[:5], b[5] + "'"] if b[2] == 1 else b],
                                             "config_extra": extra}))
                for dest in ("unknown", "awake", "sleeping"):
                    for fields in pool:
                        arun(send_case(ctx, {"version": version, "dest": dest, "fields": fields, "buffered": None,
                                             "intervening": "none", "config_extra": extra}))
                if version.startswith("2"):
                    for how, stale_first in itertools.product(("child-removed", "re-presented"), (True, False)):
                        arun(vanished_child_case(ctx, {"kind": "vanished-child", "version": version, "how": how,
                                                       "stale_first": stale_first, "config_extra": extra}))
                for seconds in (0.5, 4, 11, 31, 61, 301, 3601):
                    slow_write_send_case(ctx, {"kind": "slow-write-send", "version": version, "fields": pool[0],
                                               "seconds": seconds, "config_extra": extra})
            ctx.clause("unknown-option-pass")


def run(ctx) -> None:
    with Reach(ANCHORS) as reach:
        unknown_option_pass(ctx)
        for case in cases(ctx):
            arun(send_case(ctx, case))
        for version in [None, *VERSIONS]:
            for fields in ([DEST, 0, 1, 0, 2, "f1"], [DEST, 7, 1, 1, 3, "f2"], [DEST, 0, 2, 0, 2, ""], [DEST, 255, 3, 0, 13, ""],
                           [DEST, 255, 4, 0, 1, "fw"], [DEST, 255, 0, 0, 17, "2.0"]):
                for dest, buffered in itertools.product(("unknown", "awake", "sleeping"), (None, True, False)):
                    if ctx.mine():
                        arun(fault_send_case(ctx, {"kind": "fault-send", "version": version, "dest": dest, "fields": fields,
                                                   "buffered": buffered}))
        shapes = [(4, 8, 20), (2, 30, 10), (1, 1, 57), (7, 10, 30)] + ([(10, 20, 25), (3, 100, 20)] if not ctx.quick else [])
        for i, (version, shape) in enumerate(itertools.product(("2.0", "2.2"), shapes)):
            if ctx.mine(i):
                arun(mass_park_case(ctx, {"kind": "mass-park", "version": version, "shape": list(shape)}))
        change_sets = [[{}, {"payload": "second"}], [{}, {"payload": "second"}, {"payload": "third", "ack": 1}],
                       [{}, {"child_id": 7}, {"message_type": 3}], [{}, {}, {"payload": ""}],
                       [{}, {"payload": "x"}, {"payload": "first"}]]
        for version in [None, *VERSIONS]:
            for sleeping in (False, True):
                for changes in change_sets:
                    if sleeping and any(set(c) - {"payload", "ack"} for c in changes):
                        # a parked command is the Message object itself; changing the KEY fields of an object that is
                        # currently parked is outside what the statement describes (observed, not judged)
                        continue
                    if ctx.mine():
                        arun(reuse_case(ctx, {"kind": "reuse", "version": version, "sleeping": sleeping, "changes": changes}))
        for version in (None, "2.0", "2.2"):
            for fields in ([DEST, 0, 1, 0, 2, "m"], [DEST, 0, 1, 1, 2, "m"], [DEST, 255, 3, 1, 13, ""], [DEST, 0, 2, 1, 2, ""],
                           [DEST, 255, 3, 0, 18, ""]):
                for publish_fails in (False, True):
                    if ctx.mine():
                        mqtt_send_case(ctx, {"kind": "mqtt-send", "version": version, "fields": fields,
                                             "publish_fails": publish_fails})
        pair_pool = [[DEST, 0, 1, 0, 2, "s1"], [DEST, 0, 2, 0, 2, ""], [DEST, 0, 1, 1, 3, "s2"], [DEST, 7, 2, 0, 2, ""],
                     [DEST, 7, 1, 0, 2, "s3"], [DEST, 255, 3, 0, 13, ""], [DEST, 0, 0, 0, 6, "p"], [DEST, 255, 4, 0, 0, "fw"],
                     [DEST, 0, 2, 1, 3, "q"], [DEST, 255, 3, 0, 19, ""]]
        from .. import codedict

        for version in (None, "1.5", "2.2"):
            for fields in ([DEST, 0, 1, 0, 2, "slow"], [DEST, 255, 3, 1, 13, ""], [DEST, 0, 2, 0, 2, ""]):
                for seconds in codedict.durations()[::3]:
                    if ctx.mine():
                        slow_write_send_case(ctx, {"kind": "slow-write-send", "version": version, "fields": fields, "seconds": seconds})
        for version in ("2.0", "2.1", "2.2"):
            for ack, rounds, update, fail_between in itertools.product((0, 1), (2, 4), (False, True), (False, True)):
                if ctx.mine():
                    arun(resend_after_release_case(ctx, {"kind": "resend-after-release", "version": version, "ack": ack,
                                                         "rounds": rounds, "update_payload": update, "fail_between": fail_between}))
        for version in ("2.0", "2.1", "2.2"):
            for how, stale_first in itertools.product(("child-removed", "re-presented"), (True, False)):
                if ctx.mine():
                    arun(vanished_child_case(ctx, {"kind": "vanished-child", "version": version, "how": how,
                                                   "stale_first": stale_first}))
        for version in ("2.0", "2.1", "2.2"):
            first = [DEST, 0, 1, 0, 2, "v"]
            for second in ([DEST, 0, 1, 0, 2, "v"], [DEST, 0, 1, 1, 2, "v"], [DEST, 0, 1, 0, 2, "w"], [DEST, 7, 1, 0, 2, "v"],
                           [DEST, 0, 1, 0, 3, "v"], [DEST, 0, 1, 0, 2, "V"], [DEST, 0, 1, 0, 2, "v "]):
                for complete in ("ok", "fails"):
                    if ctx.mine():
                        arun(in_flight_duplicate_case(ctx, {"kind": "in-flight-duplicate", "version": version, "first": first,
                                                            "second": second, "complete": complete}))
        for version in ("2.0", "2.1", "2.2"):
            for a, b in itertools.product(pair_pool, repeat=2):
                if ctx.mine():
                    arun(pair_case(ctx, {"version": version, "sends": [a, [*b[:5], b[5] + "'"]]}))
        names = ["None", "str", "bytes", "int", "list", "dict-six-fields", "dict-empty", "object", "tuple", "duck",
                 "subclass", "class", "float", "dict-partial"]
        for version, name, buffered in itertools.product([None, *VERSIONS], names, (None, True, False)):
            if ctx.mine():
                arun(nonmessage_case(ctx, {"version": version, "object": name, "buffered": buffered}))
    reach.into(ctx)
    for clause in ("send-classified", "held-written-at-wake", "nonmessage-rejected", "pair-of-sends-classified"):
        ctx.require(clause, 50)
