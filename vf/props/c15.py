"""C15 - a crash during save never destroys the previously saved registry.

strace records the exact sequence of file-system operations one Persistence.save() performs on a
scratch directory; every prefix of that sequence (and torn prefixes of every write) is replayed
onto a copy of the pre-state; each resulting directory is a state a `kill -9` could have left, and
the REAL Persistence.load is run on each: it must return the old or the new registry.
Thorough tier adds live kills (SIGKILL at random moments of a save slowed down by strace delay
injection).  The replayer is validated on every run: its final state must equal, byte for byte,
the directory the child really left behind.
"""

from __future__ import annotations

import json
import os
import random
import shutil
import signal
import subprocess
import sys
import time

from .. import fsrec
from ..ctx import VERIF_DIR, h64, scratch_dir
from ..harness import run as arun
from ..reach import Reach
from .c13 import first_difference, snap, typed

LEVEL = "fault_enumeration"
SHARDS = {"quick": 6, "thorough": 16}
RULE = ("pairs (old registry, new registry): empty->small, small->large (> 8 kB), large->small, equal, same-size with two "
        "nodes changed, large->large, missing file->small; for each pair every prefix of the recorded syscall sequence of "
        "the save (open/truncate, each write, ftruncate, rename, unlink, close) plus torn prefixes of every write (1, every "
        "64th byte up to 1 kB, every 4 kB, half, len-1) is a crash point; thorough adds more pairs and live SIGKILLs; "
        "distinct = distinct (pair, directory content); non-trivial = crash state that differs from both the pre-state and "
        "the final state")
ASSUMES = ["crash model is process death: completed syscalls survive, write-back reordering / missing fsync are out of scope",
           "a write syscall may be torn at any byte boundary by a fatal signal"]
ANCHORS = ["aiomysensors.persistence:Persistence.save", "aiomysensors.persistence:Persistence.load"]
LIVE = "reg.json"


def node_spec(i: int, *, name: str = "s", nchildren: int = 1, value: str = "v") -> dict:
    return {"node_type": 17, "protocol_version": "2.0", "sketch_name": name, "sketch_version": "1.0",
            "battery_level": i % 101, "heartbeat": i, "sleeping": bool(i % 2),
            "children": {str(c): {"child_type": 6, "description": f"c{c}", "values": {"0": f"{value}{i}-{c}"}}
                         for c in range(nchildren)}}


def registries() -> dict[str, dict]:
    small = {"1": node_spec(1), "2": node_spec(2)}
    small_b = {"1": node_spec(1, value="w"), "3": node_spec(3, value="w")}  # same size on disk, two nodes changed
    large = {str(i): node_spec(i, name="n" * 60, nchildren=3) for i in range(60)}
    large_b = {str(i): node_spec(i, name="m" * 60, nchildren=3, value="x") for i in range(1, 61)}
    return {"empty": {}, "small": small, "small_b": small_b, "large": large, "large_b": large_b,
            "one": {"7": node_spec(7)}}


PAIRS_QUICK = [("empty", "small"), ("small", "large"), ("large", "small"), ("small", "small"), ("small", "small_b"),
               (None, "small")]
PAIRS_THOROUGH = PAIRS_QUICK + [("large", "large_b"), ("one", "small"), ("small", "one"), ("small", "empty"),
                                ("large", "empty"), ("empty", "large"), (None, "large"), ("small_b", "small"),
                                ("large_b", "large"), ("one", "large_b")]


def child_env() -> dict:
    env = dict(os.environ)
    repo = os.environ.get("VERIF_REPO", "/repo")
    env["PYTHONPATH"] = f"{repo}/src:{VERIF_DIR}"
    env["PYTHONDONTWRITEBYTECODE"] = "1"
    return env


def read_dir(root: str) -> dict[str, bytes]:
    out = {}
    for name in sorted(os.listdir(root)):
        path = os.path.join(root, name)
        if os.path.isfile(path):
            with open(path, "rb") as fil:
                out[path] = fil.read()
    return out


async def save_registry(spec: dict, path: str) -> None:
    from aiomysensors.persistence import Persistence

    from ..c15_child import build

    await Persistence(build(spec), path).save()


async def load_state(state_dir: str) -> tuple[str, object]:
    from aiomysensors.persistence import Persistence

    nodes: dict = {}
    try:
        await Persistence(nodes, os.path.join(state_dir, LIVE)).load()
    except Exception as exc:  # noqa: BLE001
        return "raises", f"{type(exc).__name__}: {exc!s:.120}"
    return "loaded", typed(snap(nodes))


def expected_snapshot(spec: dict) -> dict:
    from ..c15_child import build

    return typed(snap(build(spec)))


def classify(live: bytes | None, old_text: bytes | None, new_text: bytes, truncating_open: bool, extra_files: list[str],
             outcome: str) -> str:
    """Mechanism key of a failing crash state."""
    if live is not None and truncating_open and len(live) < len(new_text) and new_text.startswith(live) and not extra_files:
        return "save-truncates-live-file"
    if live is not None and old_text is not None and live == old_text:
        return "intact-live-file-not-loaded" if outcome != "raises" else "intact-live-file-load-raises"
    if live is not None and live == new_text:
        return "complete-new-file-not-loaded"
    if live is None:
        return "live-file-missing"
    if old_text is not None and live not in (old_text, new_text) and not new_text.startswith(live):
        return "live-file-mixes-old-and-new" if live[:1] == new_text[:1] else "live-file-garbage"
    return "partial-file-without-truncating-open"


def run_pair(ctx, workroot: str, old_name: str | None, new_name: str) -> None:
    regs = registries()
    new_spec = regs[new_name]
    old_spec = regs[old_name] if old_name is not None else None
    root = os.path.join(workroot, f"pair-{old_name}-{new_name}")
    shutil.rmtree(root, ignore_errors=True)
    os.makedirs(root)
    live = os.path.join(root, LIVE)
    if old_spec is not None:
        arun(save_registry(old_spec, live))
    pre = read_dir(root)
    old_text = pre.get(live)
    spec_path = os.path.join(workroot, f"spec-{new_name}.json")
    with open(spec_path, "w", encoding="utf-8") as fil:
        json.dump(new_spec, fil)
    ops, status, tail = fsrec.record([sys.executable, "-m", "vf.c15_child", live, spec_path], root, env=child_env())
    case_base = {"old": old_name, "new": new_name}
    if status != 0:
        ctx.inconclusive.append(f"recorded child exited {status}: {tail[-300:]}")
        return
    if not ops:
        ctx.inconclusive.append("strace recorded no file-system operation of the save")
        return
    ctx.obs("recorded-ops", len(ops))
    for op in ops:
        ctx.obs(f"op:{op.kind}")
    final_real = read_dir(root)
    states = list(fsrec.crash_states(pre, ops))
    final_model = states[-1][3]
    ctx.clause("replayer-validated")
    if final_model != final_real:
        ctx.inconclusive.append(f"replayer final state differs from the directory the child left ({old_name}->{new_name}): "
                                f"model {[(k, len(v)) for k, v in final_model.items()]} real "
                                f"{[(k, len(v)) for k, v in final_real.items()]}")
        return
    new_text = final_real.get(live, b"")
    want_old = expected_snapshot(old_spec) if old_spec is not None else expected_snapshot({})
    want_new = expected_snapshot(new_spec)
    # completed save: final state loads to the new registry
    seen: set[int] = set()
    state_dir = os.path.join(workroot, "state")
    trunc_open_at: int | None = None
    closed_at: int | None = None
    for i, op in enumerate(ops):
        if op.kind == "open" and op.path == live and "O_TRUNC" in op.flags and trunc_open_at is None:
            trunc_open_at = i
            trunc_fd = op.fd
        elif op.kind == "close" and trunc_open_at is not None and closed_at is None and op.fd == trunc_fd:
            closed_at = i
    for label, index, torn, content in states:
        digest = h64(sorted((k, v) for k, v in content.items()))
        if digest in seen and not (index == len(ops) - 1 and torn is None):
            continue
        seen.add(digest)
        shutil.rmtree(state_dir, ignore_errors=True)
        os.makedirs(state_dir)
        for path, data in content.items():
            with open(os.path.join(state_dir, os.path.relpath(path, root)), "wb") as fil:
                fil.write(data)
        outcome, value = arun(load_state(state_dir))
        is_final = (index == len(ops) - 1 and torn is None)
        nontrivial = content != pre and content != final_real
        ctx.case((old_name, new_name, digest), nontrivial=nontrivial,
                 sample={"pair": [old_name, new_name], "crash_point": label, "op_index": index, "torn_at": torn,
                         "files": {os.path.basename(k): len(v) for k, v in content.items()}, "load": outcome})
        ctx.clause("crash-state-loaded")
        ok = outcome == "loaded" and (value == want_old or value == want_new)
        if is_final:
            ctx.clause("completed-save-loads-new")
            if not (outcome == "loaded" and value == want_new):
                ctx.violation("completed-save-not-new-registry", f"after the completed save load gives {outcome} {value!r:.100}",
                              {**case_base, "crash_point": label, "op_index": index})
            continue
        if ok:
            continue
        live_bytes = content.get(live)
        in_window = trunc_open_at is not None and index >= trunc_open_at and (closed_at is None or index <= closed_at)
        extra = [os.path.basename(k) for k in content if k != live]
        key = classify(live_bytes, old_text, new_text, in_window, extra, outcome)
        what = (f"{old_name}->{new_name}: crash {label} at op {index} ({(ops[index].kind + ' ' + os.path.basename(ops[index].path)) if index >= 0 else ''}) torn={torn}: "
                f"live file {len(live_bytes) if live_bytes is not None else 'missing'} bytes, other files {extra}; load -> {outcome} "
                f"{value if outcome == 'raises' else 'a registry that is neither the old nor the new one'}")
        ctx.violation(key, what, {**case_base, "crash_point": label, "op_index": index, "torn_at": torn})
    shutil.rmtree(state_dir, ignore_errors=True)
    shutil.rmtree(root, ignore_errors=True)


def live_kill(ctx, workroot: str, old_name: str, new_name: str, rng: random.Random, index: int) -> None:
    """SIGKILL a real save (slowed down with strace delay injection) at a random moment."""
    regs = registries()
    root = os.path.join(workroot, f"kill-{index}")
    shutil.rmtree(root, ignore_errors=True)
    os.makedirs(root)
    live = os.path.join(root, LIVE)
    arun(save_registry(regs[old_name], live))
    old_text = open(live, "rb").read()
    spec_path = os.path.join(root, "spec.json")
    with open(spec_path, "w", encoding="utf-8") as fil:
        json.dump(regs[new_name], fil)
    cmd = ["strace", "-f", "-o", "/dev/null", "-e", "trace=openat,write,close", "-e",
           "inject=openat,write,close:delay_enter=15000", sys.executable, "-m", "vf.c15_child", live, spec_path, "--wait"]
    proc = subprocess.Popen(cmd, env=child_env(), stdin=subprocess.PIPE, stdout=subprocess.PIPE, stderr=subprocess.DEVNULL,
                            start_new_session=True)
    try:
        line = proc.stdout.readline()
        if b"READY" not in line:
            ctx.obs("live-kill-child-not-ready")
            return
        proc.stdin.write(b"go\n")
        proc.stdin.flush()
        time.sleep(rng.uniform(0.0, 0.35))
        os.killpg(proc.pid, signal.SIGKILL)
    finally:
        try:
            os.killpg(proc.pid, signal.SIGKILL)
        except ProcessLookupError:
            pass
        proc.wait()
    os.unlink(spec_path)
    content = read_dir(root)
    live_bytes = content.get(live)
    state_dir = root
    outcome, value = arun(load_state(state_dir))
    new_snapshot = expected_snapshot(regs[new_name])
    old_snapshot = expected_snapshot(regs[old_name])
    ctx.clause("live-kill-judged")
    ctx.case(("kill", old_name, new_name, h64(live_bytes)), nontrivial=live_bytes not in (old_text,),
             sample={"live_kill": [old_name, new_name], "live_bytes": len(live_bytes or b""), "load": outcome})
    ok = outcome == "loaded" and value in (old_snapshot, new_snapshot)
    ctx.obs("live-kill:" + ("old" if value == old_snapshot else "new" if value == new_snapshot else "bad"))
    if not ok:
        arun(save_registry(regs[new_name], os.path.join(root, "ref.json")))
        new_text = open(os.path.join(root, "ref.json"), "rb").read()
        key = classify(live_bytes, old_text, new_text, True, [k for k in content if os.path.basename(k) not in (LIVE,)], outcome)
        ctx.violation(key, f"live kill {old_name}->{new_name}: file has {len(live_bytes or b'')} bytes, load -> {outcome} "
                           f"{value if outcome == 'raises' else 'neither old nor new'}",
                      {"old": old_name, "new": new_name, "mode": "live-kill"})
    shutil.rmtree(root, ignore_errors=True)


def run_case(ctx, case: dict) -> None:
    workroot = str(scratch_dir("c15"))
    try:
        run_pair(ctx, workroot, case["old"], case["new"])
    finally:
        shutil.rmtree(workroot, ignore_errors=True)


def run(ctx) -> None:
    if not fsrec.strace_available():
        ctx.inconclusive.append("strace/ptrace is not available: the file-system recorder cannot observe the save")
        return
    workroot = str(scratch_dir("c15"))
    try:
        with Reach(ANCHORS) as reach:
            pairs = PAIRS_QUICK if ctx.quick else PAIRS_THOROUGH
            for i, (old_name, new_name) in enumerate(pairs):
                if ctx.mine(i):
                    run_pair(ctx, workroot, old_name, new_name)
            if not ctx.quick:
                kills = 200 // ctx.shard_count + 1
                for i in range(kills):
                    pair = [("small", "large"), ("large", "small"), ("large", "large_b"), ("small", "small_b")][i % 4]
                    live_kill(ctx, workroot, pair[0], pair[1], ctx.rng, i)
        reach.into(ctx)
    finally:
        shutil.rmtree(workroot, ignore_errors=True)
    ctx.require("crash-state-loaded", 10)
    ctx.require("replayer-validated", 1)
    ctx.require("completed-save-loads-new", 1)
