"""C08 - the sleep buffer loses nothing and repeats nothing when transport writes fail.

Exhaustive fault enumeration: every subset of failing write attempts among the first N, for every
buffered set of up to four commands over one or two nodes and wake sequences of up to three
wakes.  Conservation checker over the boundary write log with unique values:
parked = written_ok (+) still_parked after every step; a faulted flush must be reported by listen
as a library transport error; after two fault-free wakes per node everything parked is written
exactly once.
"""

from __future__ import annotations

import itertools

from .. import codedict
from ..harness import FAULT_CLASSES, Stepper, exc_info, new_gateway
from ..harness import run as arun
from ..lockstep import split_line
from ..reach import Reach

LEVEL = "fault_enumeration"
SHARDS = {"quick": 8, "thorough": 16}
RULE = ("buffered sets of 1-4 set commands over one or two sleeping nodes (all key-sharing shapes, incl. overwritten keys) "
        "x wake sequences of <= 3 wakes x EVERY subset of failing write attempts among the first 5 (thorough 8) x versions "
        "2.0/2.1/2.2; thorough adds re-sends between the wakes; distinct = distinct (version, sends, wakes, fault set); "
        "non-trivial = at least one injected fault hit a flush write")
ASSUMES = ["the order in which parked commands are released is not prescribed", "faults are TransportFailedError raised by "
           "Transport.write after the call was logged"]
ANCHORS = ["aiomysensors.model.protocol.protocol_20:IncomingMessageHandler._handle_sleep_buffer"]

A, B = 1, 2
SEND_SHAPES = [
    [[A, 0, 2]], [[A, 0, 2], [A, 0, 3]], [[A, 0, 2], [A, 0, 2]], [[A, 0, 2], [B, 0, 2]],
    [[A, 0, 2], [A, 1, 2], [A, 0, 3]], [[A, 0, 2], [A, 0, 3], [B, 0, 2]], [[A, 0, 2], [B, 0, 2], [A, 0, 2]],
    [[A, 0, 2], [A, 0, 3], [A, 1, 2], [A, 1, 3]], [[A, 0, 2], [A, 0, 3], [B, 0, 2], [B, 0, 3]],
    [[A, 0, 2], [A, 1, 2], [A, 0, 2], [B, 1, 2]],
]
WAKE_SEQS = [[A], [A, A], [A, B], [B, A], [A, A, A], [A, B, A], [A, A, B], [B, A, B]]


async def fault_case(ctx, case: dict) -> None:
    from aiomysensors.exceptions import TransportError
    from aiomysensors.model.message import Message
    from aiomysensors.model.node import Child, Node

    version = case["version"]
    wake_type = 32 if version == "2.2" else 22
    gateway, transport = new_gateway(version)
    transport.fault_class = case.get("fault_class", "TransportFailedError")
    for n in (A, B):
        gateway.nodes[n] = Node(n, 17, "2.0", children={c: Child(c, 3) for c in range(3)}, sleeping=True)
    stepper = Stepper(gateway, transport)
    parked: dict[tuple, str] = {}
    dropped: set[str] = set()  # values overwritten while still parked: must never be written
    written: dict[str, int] = {}
    counter = 0
    hit_faults = 0

    def problem(key: str, what: str) -> None:
        ctx.violation(key, what, case)

    async def do_send(spec_: list) -> None:
        nonlocal counter
        counter += 1
        n, c, t = spec_
        value = f"v{counter}"
        kind, exc = await stepper.tx(Message(n, c, 1, 0, t, value))
        if kind != "ok" or transport.take_writes():
            problem("parked-send-wrote-or-raised", f"send to sleeping node: {kind} {exc!r}")
        if (n, c, t) in parked:
            dropped.add(parked[(n, c, t)])
        parked[(n, c, t)] = value

    async def do_wake(n: int, *, final: bool) -> None:
        nonlocal hit_faults
        events_from = len(transport.events)
        kind, value = await stepper.rx(f"{n};255;3;0;{wake_type};1\n")
        transport.take_writes()
        fails = [e for e in transport.events[events_from:] if e[0] == "write-fail"]
        oks = [e for e in transport.events[events_from:] if e[0] == "write-ok"]
        hit_faults += len(fails)
        ctx.clause("flush-step-checked")
        for _k, _a, line in oks:
            parsed = split_line(line)
            if not parsed or parsed[2] != 1:
                continue
            key, val = (parsed[0], parsed[1], parsed[4]), parsed[5]
            written[val] = written.get(val, 0) + 1
            if written[val] > 1:
                problem("command-written-twice", f"{line!r} written again at wake of node {n} (fault set {case['faults']})")
            elif val in dropped:
                problem("overwritten-command-written", f"{line!r} was replaced by a newer send but written")
            elif parked.get(key) != val:
                problem("unknown-or-stale-write", f"{line!r} written, parked for the key is {parked.get(key)!r}")
            else:
                del parked[key]
            if key[0] != n:
                problem("released-other-node", f"{line!r} released at the wake of node {n}")
        if fails:
            ctx.clause("fault-reported")
            if kind != "error":
                problem("fault-not-reported", f"a write failed during the wake of node {n} but listen yielded normally")
            elif transport.fault_class.startswith("foreign:"):
                # the transport failed with something else than a TransportError (the MQTT client's RuntimeError when it is
                # not connected, an OS error a third-party transport lets through): what escapes listen() is that
                # transport's business - the commands not yet written still stay buffered
                ctx.obs("foreign-transport-failure-reported-as:" + type(value).__name__)
            elif not isinstance(value, TransportError):
                info = exc_info(value)
                problem("fault-wrong-error", f"a failed write surfaced as {info['class']} (not a transport error)")
        else:
            if kind == "error":
                problem("wake-raised-without-fault", f"wake of node {n} raised {type(value).__name__}: {value!s:.100}")
            left = [k for k in parked if k[0] == n]
            ctx.clause("fault-free-wake-releases-all")
            if left:
                key_name = "command-lost" if any(True for _ in left) else ""
                problem(key_name, f"fault-free wake of node {n} left {[(k, parked[k]) for k in left]} unwritten "
                                  f"(fault set {case['faults']}, final={final})")
                for k in left:
                    del parked[k]  # report once

    async def reenter() -> None:
        """The application reconnects: leaves and re-enters the gateway context on the same Gateway object."""
        await stepper.close()
        saved, transport.fail_attempts = transport.fail_attempts, set()
        await gateway.__aexit__(None, None, None)
        await gateway.__aenter__()
        transport.fail_attempts = saved
        transport.take_writes()
        ctx.obs("reentered-context")

    for s in case["sends"]:
        await do_send(s)
    transport.fail_attempts = set(case["faults"])
    resends = case.get("resends") or []
    if case.get("reenter_after") == -1:
        await reenter()
    for i, n in enumerate(case["wakes"]):
        await do_wake(n, final=False)
        if i < len(resends) and resends[i]:
            await do_send(resends[i])
        if case.get("reenter_after") == i:
            await reenter()
    transport.fail_attempts = set()
    for _ in range(2):
        for n in (A, B):
            await do_wake(n, final=True)
    ctx.clause("conservation-at-end")
    if parked:
        problem("command-lost", f"still parked after two fault-free wakes per node: {parked}")
    await stepper.close()
    ctx.obs("fault-class:" + transport.fault_class)
    ctx.case((version, repr(case["sends"]), tuple(case["wakes"]), tuple(case["faults"]), repr(resends),
              case.get("reenter_after"), transport.fault_class),
             nontrivial=hit_faults > 0, sample=case)
    ctx.obs("faults-hit", hit_faults)
    ctx.obs("write-attempts", transport.attempts)


def cases(ctx):
    nattempts = ctx.pick(5, 8)
    count = 0
    for version in ("2.0", "2.1", "2.2"):
        for sends, wakes in itertools.product(SEND_SHAPES, WAKE_SEQS):
            # attempts beyond what can happen are equivalent to no fault: bound the subset universe
            universe = range(min(nattempts, len(sends) * len(wakes)))
            for size in range(len(universe) + 1):
                for faults in itertools.combinations(universe, size):
                    if not ctx.mine():
                        continue
                    count += 1
                    # the class of the failure rotates through the documented family (base class, built-in, third-party)
                    yield {"version": version, "sends": sends, "wakes": wakes, "faults": list(faults),
                           "fault_class": FAULT_CLASSES[count % len(FAULT_CLASSES)]}
                    if size <= 1 and len(wakes) >= 2:
                        for reenter_after in (-1, 0):
                            yield {"version": version, "sends": sends, "wakes": wakes, "faults": list(faults),
                                   "reenter_after": reenter_after}
    ctx.exhaustive["fault-subsets-enumerated"] = count
    # "the transport fails" also in ways outside the TransportError family: nothing not yet written may be dropped
    from ..harness import FOREIGN_FAULTS

    for version in ("2.0", "2.1", "2.2"):
        for sends, wakes in itertools.product(SEND_SHAPES[:8], WAKE_SEQS[:6]):
            universe = range(min(4, len(sends) * len(wakes)))
            for size in (1, 2):
                for faults in itertools.combinations(universe, size):
                    if ctx.mine():
                        count += 1
                        yield {"version": version, "sends": sends, "wakes": wakes, "faults": list(faults),
                               "fault_class": FOREIGN_FAULTS[count % len(FOREIGN_FAULTS)]}
    # long histories: the same command fails at MANY consecutive wakes before a working one (retry counters, caps)
    for version in ("2.0", "2.2"):
        for sends in ([[A, 0, 2]], [[A, 0, 2], [A, 1, 3]], [[A, 0, 2], [B, 0, 2]]):
            for failures in sorted({*range(1, 34), *codedict.thresholds([64, ctx.pick(40, 150)], low=2, cap=ctx.pick(300, 2000))}):
                if ctx.mine():
                    yield {"version": version, "sends": sends, "wakes": [A] * (failures + 1) + [B],
                           "faults": list(range(failures)), "fault_class": FAULT_CLASSES[failures % len(FAULT_CLASSES)]}
                    yield {"version": version, "sends": sends, "wakes": [A, B] * failures + [A],
                           "faults": list(range(0, 2 * failures, 2))}
    if not ctx.quick:
        resend_opts = [None, [A, 0, 2], [A, 1, 3], [B, 0, 2]]
        for version in ("2.0", "2.2"):
            for sends, wakes in itertools.product(SEND_SHAPES[:6], WAKE_SEQS[4:]):
                for resends in itertools.product(resend_opts, repeat=2):
                    for size in range(0, 4):
                        for faults in itertools.combinations(range(7), size):
                            if ctx.mine():
                                yield {"version": version, "sends": sends, "wakes": wakes, "faults": list(faults),
                                       "resends": [r for r in resends],
                                       "fault_class": FAULT_CLASSES[(size + len(sends)) % len(FAULT_CLASSES)]}


def concurrent_fault_cases(ctx) -> None:
    """Failing flush writes COMBINED with send() calls racing the flush (Director, vf.sched): every order of
    {complete write k, fail write k, start sender i} for bounded configurations."""
    from ..sched import explore, run_schedule

    k1, k2 = [A, 0, 2], [A, 0, 3]
    configs = []
    for version in ("2.0", "2.2"):
        for parked in ([k1], [k1, k2]):
            for senders in ([[[*k1, True]]], [[[*k2, True]]], [[[*k1, True]], [[*k1, True]]], [[[*k1, True]], [[*k2, True]]]):
                for max_faults in (1, 2):
                    configs.append({"version": version, "parked": parked, "senders": senders, "wakes": [A, A],
                                    "max_faults": max_faults, "fault_class": FAULT_CLASSES[len(configs) % len(FAULT_CLASSES)]})
    for config in configs:
        if not ctx.mine():
            continue
        for _prefix, outcome in explore(config, lambda c, p: arun(run_schedule(c, p)), limit=ctx.pick(1500, 30000)):
            case = {"kind": "schedule", "config": config, "choices": outcome.choices, "labels": outcome.labels}
            ctx.case(("sched", repr(config), tuple(outcome.choices)), nontrivial=outcome.failed_writes > 0)
            ctx.clause("concurrent-fault-schedule")
            ctx.obs("faults-hit", outcome.failed_writes)
            judge_schedule(ctx, case, outcome)


def judge_schedule(ctx, case: dict, outcome) -> None:
    for key, what in outcome.problems:
        key = {"lost-update": "command-lost", "value-written-twice": "command-written-twice"}.get(key, key)
        ctx.violation(key + "-under-concurrent-send", f"schedule {' '.join(outcome.labels)}: {what}", case)
    if outcome.failed_writes and not [e for e in outcome.listener_errors if not e.get("final_wake")]:
        ctx.violation("fault-not-reported", f"schedule {' '.join(outcome.labels)}: a flush write failed but no listen step "
                                            f"reported it", case)
    for err in outcome.listener_errors:
        if not err["library"] or err["class"] not in ("TransportError", "TransportFailedError", "TransportReadError"):
            ctx.violation("fault-wrong-error", f"schedule {' '.join(outcome.labels)}: listen raised {err['class']} "
                                               f"({err.get('text')})", case)


def run_case(ctx, case: dict) -> None:
    if case.get("kind") == "schedule":
        from ..sched import run_schedule

        outcome = arun(run_schedule(case["config"], case["choices"]))
        ctx.case(("sched", repr(case["config"]), tuple(case["choices"])))
        judge_schedule(ctx, case, outcome)
        return
    arun(fault_case(ctx, case))


def run(ctx) -> None:
    with Reach(ANCHORS) as reach:
        for case in cases(ctx):
            arun(fault_case(ctx, case))
        concurrent_fault_cases(ctx)
    reach.into(ctx)
    for clause in ("fault-reported", "fault-free-wake-releases-all", "conservation-at-end"):
        ctx.require(clause, 100)
