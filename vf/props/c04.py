"""C04 - the registry is a faithful record (lockstep reference model).

Projection: step outcome (class, id named by Missing* errors, yielded fields) + registry after
every step.  A second workload checks the yield discipline with ONE persistent listen() iterator
over a queue of lines: the yields must be exactly the model-successful lines, in order.
"""

from __future__ import annotations

import itertools

from .. import histories, spec
from ..harness import VERSIONS, ScriptEnd, fields_of, new_gateway
from ..harness import run as arun
from ..lscheck import replay_case, run_cases
from ..model import Model
from ..reach import Reach

LEVEL = "exploration"
SHARDS = {"quick": 6, "thorough": 16}
RULE = ("all histories of length <= 3 (thorough: <= 5) over a 12-symbol alphabet (2 node presentations, child "
        "presentation, set, req, battery, sketch name/version, heartbeat, id request, set for unknown child, message "
        "from unknown node) x 5 versions, plus seeded random histories of length 30-300 over ids {0,1,2,7,254,255}, "
        "children {0,1,254}, wide types/payloads, version reports mixed in; distinct = distinct (version, steps); "
        "non-trivial = >= 2 steps and at least one step that errors, writes or changes the registry")
ASSUMES = ["the model's open points (DESIGN 2.3) follow the implementation: placeholder attributes, battery out of "
           "0-100, unparsable version reports, lenient number spellings, error precedence when two errors apply"]
ANCHORS = ["aiomysensors.model.protocol.protocol_14:IncomingMessageHandler.handle_presentation",
           "aiomysensors.model.protocol.protocol_14:IncomingMessageHandler.handle_set",
           "aiomysensors.model.protocol.protocol_14:IncomingMessageHandler.handle_i_battery_level",
           "aiomysensors.model.node:Node.add_child", "aiomysensors.model.node:Node.set_child_value",
           "aiomysensors.gateway:Gateway.listen"]


def cases(ctx):
    rng = ctx.rng
    count = 0
    max_len = ctx.pick(3, 5)
    for version in VERSIONS:
        for lines in histories.bounded_histories(histories.ALPHABET_C04, max_len):
            if ctx.mine():
                count += 1
                yield {"version": version, "steps": histories.rx_steps(lines)}
    ctx.exhaustive[f"histories-len<={max_len}-x-5-versions"] = count
    # registries restored through the real loader from SPARSE files (optional fields omitted), then traffic for one
    # node must not show up on another (no state shared between restored records)
    count = 0
    sparse = {
        "minimal": lambda n: {"node_id": n, "node_type": 17, "protocol_version": "2.0"},
        "empty-children": lambda n: {"node_id": n, "node_type": 17, "protocol_version": "2.0", "children": {}},
        "child-no-values": lambda n: {"node_id": n, "node_type": 17, "protocol_version": "2.0",
                                      "children": {"0": {"child_id": 0, "child_type": 6}}},
        "full": lambda n: {"node_id": n, "node_type": 17, "protocol_version": "2.0", "sketch_name": "s", "sketch_version": "1",
                           "battery_level": 5, "heartbeat": 2, "sleeping": False,
                           "children": {"0": {"child_id": 0, "child_type": 6, "description": "d", "values": {"0": "1"}}}},
    }
    traffic = ["1;3;0;0;6;new child", "1;0;0;0;6;c0", "1;0;1;0;2;on", "2;0;1;0;2;off", "2;0;0;0;3;c0 of 2", "1;255;3;0;0;77",
               "1;255;3;0;11;name1", "2;0;2;0;2;", "1;0;2;0;2;", "3;0;1;0;2;x"]
    for version in VERSIONS:
        for kinds in itertools.product(sparse, repeat=2):
            for lines in itertools.permutations(traffic, 3):
                if not ctx.mine():
                    continue
                if count % (25 if ctx.quick else 3):
                    count += 1
                    continue
                count += 1
                records = {"1": sparse[kinds[0]](1), "2": sparse[kinds[1]](2), "3": sparse[kinds[0]](3)}
                yield {"version": version, "steps": [["load", records], *histories.rx_steps(list(lines))]}
    ctx.exhaustive["sparse-restore-cases"] = count
    # full type tables and scale (nothing in the statement is limited to a few type numbers or a few nodes)
    count = 0
    for version in [None, *VERSIONS]:
        sweeps = [histories.presentation_type_sweep([*range(0, 40), 99, -1]),
                  histories.wide_unknown_nodes(ctx.pick(40, 250)),
                  histories.wide_unknown_nodes(17)]
        child_types = list(range(0, 40))
        for start in range(0, 40, 8):
            sweeps.append(histories.type_table_sweep(child_types[start:start + 8], list(range(0, 57))))
        for steps in sweeps:
            if ctx.mine():
                count += 1
                yield {"version": version, "steps": steps}
    # dictionary payloads (string constants of the handler modules, vf.codedict) x every value type: a vocabulary that
    # is normalised, a prefix that is stripped, a token that means something - for SOME type number - shows up here
    candidates = histories.dictionary_payloads()[: ctx.pick(120, 600)]
    for version in [None, *VERSIONS]:
        for start in range(0, len(candidates), 20):
            if ctx.mine():
                count += 1
                yield {"version": version, "steps": histories.dictionary_type_sweep(version, candidates[start:start + 20],
                                                                                    list(range(0, 57)))}
    # the registry containers are public attributes: after the application re-bound gateway.nodes / node.children to plain
    # dicts (same content), messages for unknown nodes and children still fail by naming them
    for version in [None, *VERSIONS]:
        if ctx.mine():
            count += 1
            steps = [["restore", 1, {"type": 17, "version": "2.0", "children": {"0": [3, "c0", {"2": "1"}]}}],
                     ["rebind"], ["rebind-children", 1]]
            for line in ("1;9;1;0;2;5", "1;9;2;0;2;", "7;0;1;0;2;5", "7;0;0;0;6;c", "7;255;3;0;0;50", "7;255;3;0;11;s",
                         "7;255;4;0;0;fw", "7;255;3;0;22;1", "7;255;3;0;32;1", "7;255;3;0;21;0", "1;0;1;0;2;6", "1;0;2;0;2;",
                         "1;3;0;0;6;new child", "1;3;1;0;0;20", "8;255;0;0;17;2.0", "8;1;2;0;0;"):
                steps.append(["rx", line + "\n"])
            yield {"version": version, "steps": steps}
    # "mode" messages (every internal type x payloads 0 / 1 / text, from the gateway and from a node) must not change how
    # later reports are recorded: afterwards a NEW static-id node presents itself, presents a child, reports values,
    # battery, sketch - and a known node reports - and the registry must hold all of it
    from .. import spec as _spec

    probes = ["7;255;0;0;17;2.0", "7;3;0;0;6;c", "7;3;1;0;0;5", "7;255;3;0;0;55", "7;255;3;0;11;s", "7;255;3;0;12;1",
              "1;0;1;0;2;9", "8;255;0;1;18;2.1", "8;0;0;0;3;r", "8;0;1;0;2;1"]
    for version in VERSIONS:
        proto = _spec.pmap(version)
        for t in range(0, _spec.INTERNAL_MAX[proto] + 2):
            if t == _spec.I_VERSION:
                continue
            for sender in (0, 1):
                for payload, ack in (("0", 0), ("1", 0), ("off", 1), ("", 0)):
                    if not ctx.mine():
                        continue
                    count += 1
                    steps = [["restore", 0, {"type": 18, "version": version, "children": {}}],
                             ["restore", 1, {"type": 17, "version": "2.0", "children": {"0": [3, "c0", {}]}}],
                             ["rx", f"{sender};255;3;{ack};{t};{payload}\n"]]
                    steps += [["rx", probe + "\n"] for probe in probes]
                    yield {"version": version, "steps": steps}
    ctx.exhaustive["type-table-and-scale-cases"] = count
    # every Config option this harness does not know, set to a non-default value: what an option may legitimately change
    # is unknown (it may filter what is yielded, it may add writes), but no option makes the registry forget what nodes
    # reported or lets a message for an unknown node / child pass as handled - only those two rules are judged here
    from ..harness import unknown_options

    for extra in unknown_options():
        for version in [None, *VERSIONS]:
            sweeps = [histories.presentation_type_sweep([*range(0, 40), 99, -1]),
                      histories.type_table_sweep([0, 5, 9, 13, 39], list(range(0, 57))),
                      histories.wide_unknown_nodes(17),
                      histories.rich_history(rng, version, 150), histories.rich_history(rng, version, 150)]
            for steps in sweeps:
                if ctx.mine():
                    yield {"version": version, "steps": steps, "config_extra": extra,
                           "only_keys": ["registry-differs", "missing-ref-not-rejected", "missing-ref-changed-registry"]}
    for i in range(ctx.pick(400, 20000) // ctx.shard_count):
        version = [None, *VERSIONS][i % 6]
        yield histories.with_reply_faults(rng, {"version": version,
                                                "steps": histories.rich_history(rng, version, rng.choice([20, 60, 150]))})
    for i in range(ctx.pick(600, 24000) // ctx.shard_count):
        version = [None, *VERSIONS][i % 6]
        gen = histories.HistoryGen(rng, version)
        gen.wide = i % 3 == 0
        yield {"version": version, "metric": bool(i % 2),
               "steps": gen.history(rng.choice([30, 60, 120, 300]), tx_rate=0.05, version_reports=0.02)}


async def yield_discipline(ctx, version: str, lines: list[str]) -> None:
    """One persistent listen() iterator over a queue of N lines."""
    case = {"kind": "batch", "version": version, "lines": lines}
    gateway, transport = new_gateway(version)
    model = Model()
    model.set_version_directly(version)
    transport.lines.extend(lines)
    expected = []
    yielded = []
    iterator = gateway.listen()
    consumed = 0
    while True:
        remaining_before = len(transport.lines)
        try:
            message = await iterator.__anext__()
        except ScriptEnd:
            break
        except Exception as exc:  # noqa: BLE001
            await iterator.aclose()
            iterator = gateway.listen()
            from ..harness import canonical_class

            outcome = {"kind": "error", "class": canonical_class(exc)}
        else:
            outcome = {"kind": "yield"}
            yielded.append(fields_of(message))
        line = lines[consumed]
        consumed += remaining_before - len(transport.lines)
        for w in transport.take_writes():
            parts = w.split(";")
            if parts[2:5:2] == ["3", "4"]:
                outcome["id_response"] = int(parts[5])
        outcome["proto"] = gateway.protocol.VERSION
        exp = model.rx(line, outcome)
        if exp.outcome == "yield":
            expected.append(exp.fields)
    await iterator.aclose()
    ctx.case(("batch", version, tuple(lines)), nontrivial=len(lines) > 1)
    ctx.clause("yield-exactly-once-in-order")
    if yielded != expected:
        ctx.violation("yield-discipline", f"yielded {yielded!r:.200} but the successfully handled lines are {expected!r:.200}",
                      case)


async def wake_fault_registry_case(ctx, case: dict) -> None:
    """What the registry records is what was REPORTED, not what could be written afterwards: a wake message that carries a
    heartbeat is recorded although a write of the flush it triggers fails (the failure itself is C08's business)."""
    from aiomysensors.model.message import Message
    from aiomysensors.model.node import Child, Node

    from ..harness import FAULT_CLASSES, Stepper, is_library_error

    version, n_parked, fail_at, wake_type, value = (case["version"], case["parked"], case["fail_at"], case["wake_type"],
                                                    case["value"])
    gateway, transport = new_gateway(version)
    stepper = Stepper(gateway, transport)
    gateway.nodes[1] = Node(1, 17, "2.0", children={c: Child(c, 3) for c in range(4)}, sleeping=True, heartbeat=3,
                            battery_level=40)
    for c in range(n_parked):
        await stepper.tx(Message(1, c, 1, 0, 2, f"v{c}"))
    transport.take_writes()
    transport.fail_attempts = {transport.attempts + fail_at}
    transport.fault_class = FAULT_CLASSES[(fail_at + n_parked + wake_type) % len(FAULT_CLASSES)]
    kind, result = await stepper.rx(f"1;255;3;0;{wake_type};{value}\n")
    transport.fail_attempts = set()
    ctx.case(("wake-fault-registry", version, n_parked, fail_at, wake_type, value), nontrivial=True, sample=case)
    ctx.clause("registry-after-failed-flush")
    node = gateway.nodes.get(1)
    await stepper.close()
    if kind == "error" and not is_library_error(result):
        return  # C03's finding
    if kind == "yield":
        ctx.obs("wake-fault-registry:no-failure-surfaced")  # e.g. nothing was released by this message kind
    if node is None:
        ctx.violation("registry-differs", f"node 1 vanished after {case}", case)
        return
    if wake_type == 22 and node.heartbeat != value:
        ctx.violation("registry-differs", f"heartbeat report {value} with a failing flush write (#{fail_at} of {n_parked}) under "
                                          f"{version}: the registry holds heartbeat {node.heartbeat!r}", case)
    if wake_type == 0 and node.battery_level != value:
        ctx.violation("registry-differs", f"battery report {value} ({version}): registry holds {node.battery_level!r}", case)


def run_case(ctx, case: dict) -> None:
    if case.get("kind") == "wake-fault-registry":
        arun(wake_fault_registry_case(ctx, case))
        return
    if case.get("kind") == "batch":
        arun(yield_discipline(ctx, case["version"], case["lines"]))
    else:
        replay_case(ctx, case)


def run(ctx) -> None:
    with Reach(ANCHORS) as reach:
        run_cases(ctx, cases(ctx))
        rng = ctx.rng
        for i in range(ctx.pick(300, 6000) // ctx.shard_count):
            version = VERSIONS[i % 5]
            gen = histories.HistoryGen(rng, version)
            lines = [gen.rx_line() + "\n" for _ in range(rng.choice([2, 5, 20, 60]))]
            arun(yield_discipline(ctx, version, lines))
        index = 0
        for version in ("2.0", "2.1", "2.2"):
            for n_parked in (1, 2, 3):
                for fail_at in range(n_parked):
                    for wake_type, value in ((22, 77), (22, 0), (32, 500), (0, 55)):
                        index += 1
                        if ctx.mine(index):
                            arun(wake_fault_registry_case(ctx, {"kind": "wake-fault-registry", "version": version, "parked": n_parked,
                                                               "fail_at": fail_at, "wake_type": wake_type, "value": value}))
    reach.into(ctx)
    for clause in ("registry", "outcome", "yield-fields", "error-names-id", "missing-changes-nothing",
                   "yield-exactly-once-in-order"):
        ctx.require(clause, 20)
