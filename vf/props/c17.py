"""C17 - serial/TCP transport delivers exactly the lines of the byte stream.

Oracle: a reference splitter over the byte stream.  (a) a real asyncio.StreamReader attached to a
TCPTransport, fed chunk by chunk while a reader task reads - all 2^(n-1) chunkings of short
streams; (b) a real loopback TCP server and (c) a pty-backed SerialTransport with random chunk
sizes and inter-chunk yields, the peer collecting everything the transport writes; fault positions:
refused connect, missing serial device, peer reset during read / write, 70 kB line, EOF mid-line,
use before connect, disconnect after the peer vanished.
"""

from __future__ import annotations

import asyncio
import itertools
import os
import socket
import struct
import tty

from ..harness import exc_info
from ..harness import run as arun
from ..reach import Reach

LEVEL = "exploration"
SHARDS = {"quick": 6, "thorough": 16}
RULE = ("byte streams built from valid lines, blank-padded lines, CRLF, empty lines, invalid UTF-8, NUL, multi-byte characters "
        "split across chunks, with/without final newline, over-long (70 kB) lines; ALL chunkings of 30 short streams "
        "(n <= 12 bytes) plus random streams x random chunkings through StreamReader, loopback TCP and a pty; written "
        "lines with random unicode compared byte for byte at the peer; fault positions as listed; distinct = distinct "
        "(engine, stream, chunking); non-trivial = stream with >= 2 lines or an error position")
ASSUMES = ["a read returns the line with or without its final newline (either), otherwise byte-exact",
           "after an over-long line or EOF only 'later successful reads are later lines, in order' is demanded",
           "pty and loopback sub-workloads are skipped with a note when the environment lacks them"]
ANCHORS = ["aiomysensors.transport:StreamTransport.read", "aiomysensors.transport:StreamTransport.write",
           "aiomysensors.transport:StreamTransport.connect", "aiomysensors.transport:StreamTransport.disconnect",
           "aiomysensors.transport.tcp:TCPTransport._open_connection",
           "aiomysensors.transport.serial:SerialTransport._open_connection"]
LIMIT = 2**16


def reference(stream: bytes, eof: bool) -> list[tuple[str, object]]:
    """Expected read results: ('line', str) | ('error', why)."""
    out: list[tuple[str, object]] = []
    parts = stream.split(b"\n")
    tail = parts.pop()
    for part in parts:
        raw = part + b"\n"
        if len(raw) > LIMIT + 2:
            out.append(("error", "overlong"))
            return out  # nothing more is demanded except ordering (handled by the judge)
        if len(raw) >= LIMIT - 2:
            out.append(("either", raw))  # exactly at the reader's limit: delivered or refused as over-long
            continue
        try:
            out.append(("line", raw.decode("utf-8")))
        except UnicodeDecodeError:
            out.append(("error", "undecodable"))
    if eof:
        out.append(("error", "eof" if tail else "eof-clean"))
    return out


def is_transport_error(exc: BaseException) -> bool:
    from aiomysensors.exceptions import TransportError

    return isinstance(exc, TransportError)


def judge_reads(ctx, case: dict, stream: bytes, eof: bool, results: list[tuple[str, object]]) -> None:
    expected = reference(stream, eof)
    all_lines = [raw + b"\n" for raw in stream.split(b"\n")[:-1]]
    ctx.clause("reads-vs-reference")
    relaxed = False
    position = 0  # index into all_lines for the relaxed ordering check
    for index, (kind, value) in enumerate(results):
        if kind == "error" and not is_transport_error(value):
            info = exc_info(value)
            key = "stream-undecodable-bytes" if isinstance(value, UnicodeDecodeError) else "read-foreign-exception-" + info["class"]
            ctx.violation(key, f"read #{index} raised {info['class']}: {value!s:.100}", case)
            return
        if relaxed:
            if kind == "line":
                text = value
                found = None
                for j in range(position, len(all_lines)):
                    try:
                        decoded = all_lines[j].decode()
                    except UnicodeDecodeError:
                        continue
                    if text in (decoded, decoded[:-1]):
                        found = j
                        break
                if found is None:
                    ctx.violation("read-not-a-line-of-the-stream",
                                  f"after an error, read #{index} returned {text!r:.80} which is not a later line of the stream",
                                  case)
                    return
                position = found + 1
            continue
        if index >= len(expected):
            if kind == "line":
                ctx.violation("extra-read", f"read #{index} returned {value!r:.80} beyond the stream's lines", case)
            return
        want_kind, want = expected[index]
        if want_kind == "either":
            if kind == "error":
                relaxed = True
            elif value not in (want.decode("utf-8", "replace"), want.decode("utf-8", "replace")[:-1]):
                ctx.violation("read-altered-line", f"read #{index} returned a {len(value)}-char line that differs from the "
                                                   f"{len(want)}-byte line of the stream", case)
                return
            position = index + 1
            continue
        if want_kind == "line":
            if kind != "line":
                ctx.violation("line-not-delivered", f"read #{index} raised {type(value).__name__} instead of returning "
                                                    f"{want!r:.80}", case)
                return
            if value not in (want, want[:-1]):
                key = "read-altered-line"
                ctx.violation(key, f"read #{index} returned {value!r:.80}, the stream's line is {want!r:.80}", case)
                return
            position = index + 1
        else:
            if kind == "line":
                key = {"undecodable": "undecodable-line-returned", "eof": "partial-line-returned-at-eof",
                       "eof-clean": "read-returned-after-eof", "overlong": "overlong-line-returned"}[str(want)]
                ctx.violation(key, f"read #{index} returned {value!r:.80} where the stream has {want}", case)
                return
            position = index + 1
            if want in ("overlong", "eof", "eof-clean"):
                relaxed = True
    if not relaxed and len(results) < len([e for e in expected if e[0] == "line"]):
        ctx.violation("lines-missing", f"only {len(results)} reads completed for {len(expected)} expected results", case)


async def reader_case(ctx, stream: bytes, cuts: tuple[int, ...], eof: bool) -> None:
    """(a) real StreamReader attached to a TCPTransport, concurrent feeder."""
    from aiomysensors.transport.tcp import TCPTransport

    transport = TCPTransport("127.0.0.1", 1)
    if not hasattr(transport, "reader"):
        ctx.skip("streamreader-seam", "StreamTransport has no public `reader` attribute; loopback TCP / pty workloads decide")
        return
    reader = asyncio.StreamReader(limit=LIMIT)
    transport.reader = reader
    chunks = [stream[a:b] for a, b in zip((0, *cuts), (*cuts, len(stream)))]
    case = {"engine": "streamreader", "stream": stream.hex() if len(stream) < 2000 else f"<{len(stream)} bytes>",
            "cuts": list(cuts), "eof": eof}

    async def feeder() -> None:
        for chunk in chunks:
            if chunk:
                reader.feed_data(chunk)
            await asyncio.sleep(0)
        if eof:
            reader.feed_eof()

    feed_task = asyncio.ensure_future(feeder())
    expected = reference(stream, eof)
    results: list[tuple[str, object]] = []
    reads = len(expected) + (2 if eof else 0)
    for _ in range(reads):
        try:
            results.append(("line", await asyncio.wait_for(transport.read(), 10)))
        except asyncio.TimeoutError:
            ctx.obs("reader-case-timeout")
            break
        except Exception as exc:  # noqa: BLE001
            results.append(("error", exc))
    await feed_task
    ctx.case(("sr", stream, cuts, eof), nontrivial=stream.count(b"\n") >= 2 or any(e[0] == "error" for e in expected),
             sample=case)
    judge_reads(ctx, case, stream, eof, results)


async def cancelled_read_case(ctx, stream: bytes, pattern: list[str], engine: str) -> None:
    """Reads that are cancelled (task.cancel / wait_for timeout) while pending - before any byte of the next line has
    arrived, or in the middle of a line - must not cost a line: the following reads still return exactly the lines of
    the stream, in order, and fail only with transport errors."""
    from aiomysensors.transport.tcp import TCPTransport

    case = {"engine": "cancelled-read-" + engine, "stream": stream.hex(), "pattern": pattern}
    lines = [raw + b"\n" for raw in stream.split(b"\n")[:-1]]
    feed_events: list[asyncio.Event] = [asyncio.Event() for _ in lines]
    server = None
    transport = TCPTransport("127.0.0.1", 1)
    if engine == "streamreader":
        if not hasattr(transport, "reader"):
            return
        reader = asyncio.StreamReader(limit=LIMIT)
        transport.reader = reader

        async def feed(index: int, part: str) -> None:
            data = lines[index]
            reader.feed_data(data[: len(data) // 2] if part == "half" else (data[len(data) // 2:] if part == "rest" else data))
    else:
        peer: dict = {}

        async def handler(r, w) -> None:
            peer["w"] = w
            await r.read()
            w.close()

        server = await asyncio.start_server(handler, "127.0.0.1", 0)
        transport = TCPTransport("127.0.0.1", server.sockets[0].getsockname()[1])
        await transport.connect()
        for _ in range(20):
            await asyncio.sleep(0.001)
            if "w" in peer:
                break

        async def feed(index: int, part: str) -> None:
            data = lines[index]
            peer["w"].write(data[: len(data) // 2] if part == "half" else (data[len(data) // 2:] if part == "rest" else data))
            await peer["w"].drain()
            await asyncio.sleep(0.002)

    results: list[tuple[str, object]] = []
    try:
        for index in range(len(lines)):
            how = pattern[index % len(pattern)]
            if how in ("cancel-before", "timeout-before", "cancel-mid"):
                if how == "cancel-mid":
                    await feed(index, "half")
                pending = asyncio.ensure_future(transport.read())
                for _ in range(3):
                    await asyncio.sleep(0)
                if how == "timeout-before":
                    try:
                        await asyncio.wait_for(pending, 0.001)
                        results.append(("line", pending.result()))
                        await feed(index, "all")
                        continue
                    except asyncio.TimeoutError:
                        pass
                    except Exception as exc:  # noqa: BLE001
                        results.append(("error", exc))
                else:
                    pending.cancel()
                    try:
                        results.append(("line", await pending))
                    except asyncio.CancelledError:
                        pass
                    except Exception as exc:  # noqa: BLE001
                        results.append(("error", exc))
                await feed(index, "rest" if how == "cancel-mid" else "all")
            else:
                await feed(index, "all")
            try:
                results.append(("line", await asyncio.wait_for(transport.read(), 5)))
            except asyncio.TimeoutError:
                results.append(("error", TimeoutError(f"read #{index} never completed after an earlier read was cancelled")))
                break
            except Exception as exc:  # noqa: BLE001
                results.append(("error", exc))
    finally:
        if server is not None:
            try:
                await transport.disconnect()
            except Exception:  # noqa: BLE001
                pass
            server.close()
            await server.wait_closed()
        _ = feed_events
    ctx.case(("cancelled-read", engine, stream, tuple(pattern)), nontrivial=True, sample=case)
    ctx.clause("reads-after-cancelled-read")
    for kind, value in results:
        if kind == "error" and isinstance(value, TimeoutError):
            ctx.violation("line-lost-after-cancelled-read", str(value), case)
            return
    judge_reads(ctx, case, stream, False, results)


async def tcp_case(ctx, stream: bytes, chunk_sizes: list[int], writes: list[str], fault: str | None,
                   host: str = "127.0.0.1") -> None:
    """(b) real loopback server (IPv4 loopback, IPv6 loopback or the name `localhost`)."""
    from aiomysensors.transport.tcp import TCPTransport

    received = bytearray()
    done = asyncio.Event()
    case = {"engine": "tcp", "stream": stream.hex() if len(stream) < 2000 else f"<{len(stream)} bytes>",
            "chunks": chunk_sizes[:20], "writes": writes[:5], "fault": fault, "host": host}

    async def handler(reader, writer) -> None:
        try:
            pos = 0
            for size in itertools.cycle(chunk_sizes or [len(stream) or 1]):
                if pos >= len(stream):
                    break
                writer.write(stream[pos:pos + size])
                pos += size
                await writer.drain()
                await asyncio.sleep(0)
            if fault == "reset-after-stream":
                sock = writer.get_extra_info("socket")
                sock.setsockopt(socket.SOL_SOCKET, socket.SO_LINGER, struct.pack("ii", 1, 0))
                writer.transport.abort()
                return
            writer.write_eof()
            while True:
                data = await reader.read(65536)
                if not data:
                    break
                received.extend(data)
        except OSError:
            pass
        finally:
            done.set()
            writer.close()

    server = await asyncio.start_server(handler, host if host != "localhost" else None, 0)
    port = server.sockets[0].getsockname()[1]
    if host == "localhost":  # both families listen; the port numbers may differ, take the first socket's family
        host_for_client = "::1" if server.sockets[0].family == socket.AF_INET6 else "127.0.0.1"
        ctx.obs("localhost-served-as:" + host_for_client)
    transport = TCPTransport(host, port) if host != "localhost" else TCPTransport(host_for_client, port)
    try:
        try:
            await transport.connect()
        except Exception as exc:  # noqa: BLE001 - the server is listening: nothing can refuse this connection
            ctx.violation("connect-raises", f"connect to a listening server on {host!r} raised {type(exc).__name__}: {exc!s:.80}",
                          case)
            return
        expected = reference(stream, True)
        results: list[tuple[str, object]] = []
        for _ in range(len(expected) + 1):
            try:
                results.append(("line", await asyncio.wait_for(transport.read(), 10)))
            except asyncio.TimeoutError:
                ctx.obs("tcp-case-timeout")
                break
            except Exception as exc:  # noqa: BLE001
                results.append(("error", exc))
                if fault == "reset-after-stream" and not is_transport_error(exc):
                    break
        if fault == "reset-after-stream":
            ctx.clause("peer-reset-surfaces-as-transport-error")
            for kind, value in results:
                if kind == "error" and not is_transport_error(value):
                    ctx.violation("io-error-not-transport-error", f"read after peer reset raised {type(value).__name__}: "
                                                                  f"{value!s:.80}", case)
            await asyncio.wait_for(done.wait(), 5)
            # writes after the peer vanished must fail with a TransportError (or be absorbed by the kernel buffer)
            for i in range(6):
                try:
                    await transport.write(f"1;2;1;0;0;after-reset-{i}\n")
                    await asyncio.sleep(0.005)
                except Exception as exc:  # noqa: BLE001
                    ctx.clause("write-after-reset-checked")
                    if not is_transport_error(exc):
                        ctx.violation("io-error-not-transport-error",
                                      f"write after peer reset raised {type(exc).__name__}: {exc!s:.80}", case)
                    break
        else:
            judge_reads(ctx, case, stream, True, results)
            # the peer has only half-closed (write_eof) and keeps reading: nothing failed on the write direction
            for line in writes:
                ctx.clause("write-after-peer-half-close")
                try:
                    await transport.write(line)
                except Exception as exc:  # noqa: BLE001
                    ctx.violation("write-fails-without-io-error",
                                  f"write after the peer half-closed (it still reads) raised {type(exc).__name__}: {exc!s:.80}", case)
                    break
        ctx.clause("disconnect-absorbs-os-errors")
        try:
            await asyncio.wait_for(transport.disconnect(), 10)
        except Exception as exc:  # noqa: BLE001
            ctx.violation("disconnect-raises", f"disconnect raised {type(exc).__name__}: {exc!s:.80} (fault {fault})", case)
        if fault is None:
            await asyncio.wait_for(done.wait(), 10)
            ctx.clause("bytes-at-peer")
            want = "".join(writes).encode("utf-8")
            if bytes(received) != want:
                ctx.violation("written-bytes-differ", f"peer received {bytes(received)!r:.100}, written lines encode to {want!r:.100}",
                              case)
    finally:
        server.close()
        await server.wait_closed()
    ctx.case(("tcp", stream, tuple(chunk_sizes[:20]), tuple(writes), fault), nontrivial=True, sample=case)


async def reconnect_case(ctx, first_end: str, stream: bytes, writes: list[str], disconnect_between: bool = True) -> None:
    """One transport object, two sessions: the first ends with `first_end` (clean EOF, peer reset, nothing), then
    disconnect, connect again - the second session must deliver the second stream's lines and carry the writes."""
    from aiomysensors.transport.tcp import TCPTransport

    received = bytearray()
    sessions = {"n": 0}
    second_done = asyncio.Event()
    case = {"engine": "tcp-reconnect", "first_end": first_end, "stream": stream.hex(), "writes": writes,
            "disconnect_between": disconnect_between}
    peer_writers: list = []

    async def handler(reader, writer) -> None:
        sessions["n"] += 1
        peer_writers.append(writer)
        try:
            if sessions["n"] == 1:
                writer.write(b"first;session\n" + (b"4;1;1;0;2" if first_end == "eof-midline" else b""))
                await writer.drain()
                if first_end == "reset":
                    sock = writer.get_extra_info("socket")
                    sock.setsockopt(socket.SOL_SOCKET, socket.SO_LINGER, struct.pack("ii", 1, 0))
                    writer.transport.abort()
                    return
                if first_end in ("eof", "eof-midline"):
                    writer.write_eof()
                await reader.read()
            else:
                writer.write(stream)
                await writer.drain()
                writer.write_eof()
                while True:
                    data = await reader.read(65536)
                    if not data:
                        break
                    received.extend(data)
                second_done.set()
        except OSError:
            pass
        finally:
            writer.close()

    server = await asyncio.start_server(handler, "127.0.0.1", 0)
    transport = TCPTransport("127.0.0.1", server.sockets[0].getsockname()[1])
    try:
        await transport.connect()
        for _ in range(3):
            try:
                await asyncio.wait_for(transport.read(), 0.5 if first_end == "open" else 5)
            except Exception as exc:  # noqa: BLE001
                if not is_transport_error(exc) and not isinstance(exc, asyncio.TimeoutError):
                    ctx.violation("io-error-not-transport-error", f"first session read raised {type(exc).__name__}", case)
                break
        if first_end == "reset":
            for i in range(4):
                try:
                    await transport.write(f"x{i}\n")
                    await asyncio.sleep(0.003)
                except Exception:  # noqa: BLE001
                    break
        if disconnect_between:
            ctx.clause("disconnect-absorbs-os-errors")
            try:
                await asyncio.wait_for(transport.disconnect(), 10)
            except Exception as exc:  # noqa: BLE001
                ctx.violation("disconnect-raises", f"disconnect after {first_end} raised {type(exc).__name__}: {exc!s:.80}", case)
        else:
            # a reconnect loop that reacts to the transport error by calling connect() again right away
            ctx.clause("connect-again-without-disconnect")
        ctx.clause("reconnect")
        try:
            await asyncio.wait_for(transport.connect(), 10)
        except Exception as exc:  # noqa: BLE001
            if is_transport_error(exc):
                ctx.obs("reconnect-refused-loudly")  # refusing reuse with a transport error is not a silent failure
            else:
                ctx.violation("reconnect-failed", f"second connect raised {type(exc).__name__}: {exc!s:.80}", case)
            return
        expected = reference(stream, True)
        results: list[tuple[str, object]] = []
        for _ in range(len(expected)):
            try:
                results.append(("line", await asyncio.wait_for(transport.read(), 5)))
            except asyncio.TimeoutError:
                results.append(("error", TimeoutError("read did not complete in the second session")))
                break
            except Exception as exc:  # noqa: BLE001
                results.append(("error", exc))
        if sessions["n"] < 2:
            ctx.violation("reconnect-did-not-connect", f"after disconnect + connect the peer saw {sessions['n']} connection(s); "
                                                       f"reads gave {[(k, str(v)[:40]) for k, v in results[:2]]}", case)
            return
        judge_reads(ctx, case, stream, True, results)
        for line in writes:
            try:
                await transport.write(line)
            except Exception as exc:  # noqa: BLE001
                ctx.violation("write-failed-after-reconnect", f"write in the second session raised {type(exc).__name__}: "
                                                              f"{exc!s:.60}", case)
                return
        await transport.disconnect()
        try:
            await asyncio.wait_for(second_done.wait(), 5)
        except asyncio.TimeoutError:
            pass
        ctx.clause("bytes-at-peer")
        if bytes(received) != "".join(writes).encode():
            ctx.violation("written-bytes-differ", f"second session: peer received {bytes(received)!r:.80}", case)
    finally:
        for peer_writer in peer_writers:
            peer_writer.close()
        server.close()
        await server.wait_closed()
    ctx.case(("reconnect", first_end, stream, tuple(writes), disconnect_between), nontrivial=True, sample=case)


async def backpressure_case(ctx, n_writers: int, line_size: int, seed: int, transport=None, port: int = 0, loops: int = 1,
                            base_seed: int | None = None, cancel_blocked: bool = False):
    """Outgoing back-pressure on a real TCP connection: the peer does not read until hundreds of kB are backed up, several
    tasks call write() concurrently, then the peer drains.  The bytes at the peer must be the lines in the order the
    write() CALLS were made (every call is stamped before it is awaited).  With `transport` given, the SAME transport
    object is connected again (possibly under another event loop, see two_loop_backpressure)."""
    import random

    from aiomysensors.transport.tcp import TCPTransport

    rng = random.Random(seed)
    received = bytearray()
    start_reading = asyncio.Event()
    done = asyncio.Event()
    case = {"engine": "tcp-backpressure", "writers": n_writers, "line_size": line_size, "seed": seed, "loops": loops,
            "base_seed": seed if base_seed is None else base_seed, "cancel_blocked": cancel_blocked}
    in_flight: dict[int, str] = {}
    cancelled_lines: set[str] = set()

    async def handler(reader, writer) -> None:
        try:
            await start_reading.wait()
            while True:
                data = await reader.read(rng.choice([1024, 65536, 300000]))
                if not data:
                    break
                received.extend(data)
                if rng.random() < 0.3:
                    await asyncio.sleep(0)
        except OSError:
            pass
        finally:
            done.set()
            writer.close()

    server = await asyncio.start_server(handler, "127.0.0.1", port)
    port = server.sockets[0].getsockname()[1]
    if transport is None:
        transport = TCPTransport("127.0.0.1", port)
    calls: list[str] = []
    failures: list[str] = []
    try:
        await transport.connect()
        sock = transport.writer.get_extra_info("socket") if getattr(transport, "writer", None) else None
        if sock is not None:
            sock.setsockopt(socket.SOL_SOCKET, socket.SO_SNDBUF, 8192)

        async def writer_task(index: int) -> None:
            for j in range(rng.randint(3, 8)):
                line = f"{index};{j};" + "x" * rng.choice([10, line_size, line_size // 3]) + "\n"
                calls.append(line)  # stamped at call time
                in_flight[index] = line
                try:
                    await transport.write(line)
                except asyncio.CancelledError:
                    cancelled_lines.add(line)  # the application gave up on this call: its line may or may not go out
                    return
                except Exception as exc:  # noqa: BLE001 - nothing fails on this connection
                    failures.append(f"{type(exc).__name__}: {exc!s:.80}")
                    return
                finally:
                    in_flight.pop(index, None)
                if rng.random() < 0.5:
                    await asyncio.sleep(0)

        tasks = [asyncio.ensure_future(writer_task(i)) for i in range(n_writers)]
        for _ in range(rng.randint(5, 60)):
            await asyncio.sleep(0)
        late = [asyncio.ensure_future(writer_task(100 + i)) for i in range(n_writers)]
        for _ in range(rng.randint(0, 30)):
            await asyncio.sleep(0)
        if cancel_blocked:
            # the application gives up on some of the write() calls that are blocked by the peer (round 15): what the
            # OTHER calls put on the stream, before and after, must not change
            by_index = dict(zip([*range(n_writers), *range(100, 100 + n_writers)], [*tasks, *late]))
            blocked = [i for i in in_flight if i in by_index and not by_index[i].done()]
            victims = blocked[:1] + [i for i in blocked[1:] if rng.random() < 0.3]
            for i in victims:
                by_index[i].cancel()
            ctx.obs("blocked-writes-cancelled", len(victims))
            for _ in range(rng.randint(1, 5)):
                await asyncio.sleep(0)
        start_reading.set()
        # more writers arrive exactly while the stream resumes
        for i in range(10):
            await asyncio.sleep(0)
            tasks.append(asyncio.ensure_future(writer_task(200 + i)))
        await asyncio.wait_for(asyncio.gather(*tasks, *late, return_exceptions=True), 60)
        await transport.disconnect()
        await asyncio.wait_for(done.wait(), 30)
    finally:
        server.close()
        await server.wait_closed()
    ctx.case(("backpressure", n_writers, line_size, seed, loops), sample=case)
    ctx.clause("write-order-under-backpressure")
    want = "".join(calls).encode()
    if failures:
        ctx.violation("write-fails-without-io-error", f"{len(failures)} of the concurrent writes under back-pressure raised although "
                                                      f"the connection never failed: {failures[0]}", case)
    elif cancel_blocked:
        ctx.clause("write-order-around-cancelled-writes")
        got = bytes(received).decode("utf-8", "replace").split("\n")
        got_lines = [g + "\n" for g in got[:-1]] + ([got[-1]] if got[-1] else [])
        position = 0
        for line in calls:
            if position < len(got_lines) and got_lines[position] == line:
                position += 1
            elif line not in cancelled_lines:
                key = "writes-reordered" if line in got_lines else "written-bytes-differ"
                ctx.violation(key, f"a blocked write() was cancelled; the line of call {line[:20]!r}... (not cancelled) is "
                                   f"{'out of call order' if line in got_lines else 'missing'} at the peer (position {position}, "
                                   f"{len(got_lines)} lines received, {len(calls)} calls, {len(cancelled_lines)} cancelled)", case)
                break
        else:
            if position != len(got_lines):
                ctx.violation("written-bytes-differ", f"the peer received {len(got_lines) - position} lines beyond the write() "
                                                      f"calls made (first {got_lines[position][:30]!r})", case)
    elif bytes(received) != want:
        got_lines = bytes(received).decode("utf-8", "replace").split("\n")
        want_lines = "".join(calls).split("\n")
        first = next((i for i, (a, b) in enumerate(zip(got_lines, want_lines)) if a != b), min(len(got_lines), len(want_lines)))
        key = "writes-reordered" if sorted(got_lines) == sorted(want_lines) else "written-bytes-differ"
        ctx.violation(key, f"{n_writers}+ concurrent writers under back-pressure: line #{first} at the peer is "
                           f"{got_lines[first][:30] if first < len(got_lines) else None!r}..., the write() call order has "
                           f"{want_lines[first][:30] if first < len(want_lines) else None!r}... ({len(got_lines)} vs {len(want_lines)} lines)",
                      case)
    return transport, port


def quiet_connection_case(ctx, quiet_s: int, pending_read: bool, kind: str) -> None:
    """A connection on which nothing happens for a long time (virtual clock, real loopback socket / pty): the peer must
    receive exactly the lines the application writes - none that no write() call produced (keep-alives, probes,
    re-sent lines) - and reads must deliver exactly the peer's lines, before, during and after the quiet stretch."""
    from ..vloop import LogicalDeadlock, run_virtual

    case = {"engine": "quiet-" + kind, "quiet_s": quiet_s, "pending_read": pending_read}
    received = bytearray()
    state: dict = {"problems": []}

    async def scenario() -> None:
        peer_writer = None
        got_client = asyncio.Event()

        async def handler(reader, writer) -> None:
            nonlocal peer_writer
            peer_writer = writer
            got_client.set()
            try:
                while True:
                    data = await reader.read(65536)
                    if not data:
                        break
                    received.extend(data)
            except OSError:
                pass
            finally:
                writer.close()

        if kind == "tcp":
            from aiomysensors.transport.tcp import TCPTransport

            server = await asyncio.start_server(handler, "127.0.0.1", 0)
            transport = TCPTransport("127.0.0.1", server.sockets[0].getsockname()[1])
        else:
            from aiomysensors.transport.serial import SerialTransport

            master, slave = os.openpty()
            tty.setraw(master)
            os.set_blocking(master, False)
            transport = SerialTransport(os.ttyname(slave))
            asyncio.get_running_loop().add_reader(master, lambda: received.extend(os.read(master, 65536)))
        try:
            await transport.connect()
            if kind == "tcp":
                await got_client.wait()
            send_to_app = (lambda data: peer_writer.write(data)) if kind == "tcp" else (lambda data: os.write(master, data))
            await transport.write("1;255;3;0;2;before\n")
            send_to_app(b"0;255;3;0;14;up\n")
            first = await transport.read()
            reader_task = asyncio.ensure_future(transport.read()) if pending_read else None
            for _ in range(40):
                await asyncio.sleep(quiet_s / 40)
            quiet_bytes = bytes(received)
            send_to_app(b"1;0;1;0;0;after quiet\n")
            second = await (reader_task if reader_task is not None else transport.read())
            await transport.write("1;0;1;0;2;after\n")
            await asyncio.sleep(5)
            state.update(first=first, second=second, quiet_bytes=quiet_bytes)
            await transport.disconnect()
            await asyncio.sleep(SAFETY_QUIET)
        finally:
            if kind == "tcp":
                server.close()
                await server.wait_closed()
            else:
                asyncio.get_running_loop().remove_reader(master)
                os.close(master)
                os.close(slave)

    result, loop = run_virtual(scenario, grace=0.01)
    if isinstance(result, LogicalDeadlock):
        ctx.obs("quiet-case-deadlock")
        ctx.inconclusive.append(f"quiet-connection case {case}: loop reported a logical deadlock (loopback delivery too slow?)")
        return
    if isinstance(result, BaseException):
        ctx.violation("quiet-connection-raised", f"{type(result).__name__}: {result!s:.100}", case)
        return
    ctx.case(("quiet", kind, quiet_s, pending_read), sample=case)
    ctx.clause("quiet-connection")
    ctx.obs("quiet-virtual-seconds", quiet_s)
    want_quiet = b"1;255;3;0;2;before\n"
    want_all = want_quiet + b"1;0;1;0;2;after\n"
    if state["quiet_bytes"] != want_quiet or bytes(received) != want_all:
        ctx.violation("unwritten-bytes-at-peer", f"{kind} connection quiet for {quiet_s} virtual seconds: the peer received "
                                                 f"{bytes(received)!r:.120}, the application wrote {want_all!r}", case)
    if (state["first"], state["second"]) != ("0;255;3;0;14;up\n", "1;0;1;0;0;after quiet\n"):
        ctx.violation("read-not-a-line-of-the-stream", f"reads around a quiet stretch returned {state['first']!r}, "
                                                       f"{state['second']!r}", case)


SAFETY_QUIET = 120


def stalled_close_case(ctx, stall_s: float, total_kib: int) -> None:
    """write() has accepted lines that still sit in user space (the peer is alive but not reading, tiny socket buffers),
    disconnect() is called, and the peer starts reading `stall_s` virtual seconds later: every accepted line must arrive -
    a disconnect that gives up after some seconds throws accepted bytes away without any error."""
    from ..vloop import LogicalDeadlock, run_virtual

    case = {"engine": "stalled-close", "stall_s": stall_s, "total_kib": total_kib}
    received = bytearray()
    state: dict = {}

    async def scenario() -> None:
        from aiomysensors.transport.tcp import TCPTransport

        finished = asyncio.Event()

        async def handler(reader, writer) -> None:
            try:
                await asyncio.sleep(stall_s)
                while True:
                    data = await reader.read(65536)
                    if not data:
                        break
                    received.extend(data)
            except OSError as err:
                state["peer_error"] = repr(err)
            finally:
                finished.set()
                writer.close()

        server = await asyncio.start_server(handler, "127.0.0.1", 0)
        server.sockets[0].setsockopt(socket.SOL_SOCKET, socket.SO_RCVBUF, 4096)
        transport = TCPTransport("127.0.0.1", server.sockets[0].getsockname()[1])
        try:
            await transport.connect()
            sock = transport.writer.get_extra_info("socket")
            sock.setsockopt(socket.SOL_SOCKET, socket.SO_SNDBUF, 4096)
            # write until the kernel's buffers are full and `total_kib` KiB more sit in the transport's user-space buffer
            # (below asyncio's high-water mark, so every write() call still returns)
            accepted = []
            target = min(total_kib, 60) * 1024
            buffered = transport.writer.transport.get_write_buffer_size
            for _round in range(200):
                while buffered() < target and len(accepted) < 20000:
                    line = f"{len(accepted) % 250};0;1;0;2;" + "x" * 1000 + "\n"
                    await transport.write(line)
                    accepted.append(line)
                before = buffered()
                for _ in range(3):  # a few idle loop rounds = a few 10 ms of REAL time (VLoop grace) for the kernel to take more
                    await asyncio.sleep(0.001)
                if buffered() >= before and before >= target - 2048:
                    break  # nothing moved: the kernel's buffers are full, `before` bytes sit in user space
            state["accepted"] = "".join(accepted).encode()
            state["user_space"] = transport.writer.transport.get_write_buffer_size()
            try:
                await transport.disconnect()
            except Exception as exc:  # noqa: BLE001
                state["disconnect_error"] = exc
            await asyncio.wait_for(finished.wait(), stall_s + 600)
        finally:
            server.close()
            await server.wait_closed()

    result, _loop = run_virtual(scenario, grace=0.01)
    if isinstance(result, LogicalDeadlock):
        ctx.inconclusive.append(f"stalled-close case {case}: logical deadlock (loopback delivery too slow?)")
        return
    if isinstance(result, BaseException):
        from ..harness import scenario_exception

        scenario_exception(ctx, result, case, "stalled-close")
        return
    ctx.case(("stalled-close", stall_s, total_kib), sample=case)
    ctx.clause("disconnect-with-accepted-bytes-pending")
    ctx.obs("stalled-close-user-space-kib", (state.get("user_space") or 0) // 1024)
    if (state.get("user_space") or 0) < 1024:
        ctx.inconclusive.append(f"stalled-close case {case}: nothing was left in user space at disconnect")
        return
    if isinstance(state.get("disconnect_error"), BaseException):
        ctx.violation("disconnect-raises", f"disconnect with {total_kib} KiB accepted but unread raised "
                                           f"{type(state['disconnect_error']).__name__}", case)
    if bytes(received) != state.get("accepted"):
        ctx.violation("written-bytes-differ", f"{total_kib} KiB were accepted by write(), the peer started reading {stall_s} "
                                              f"virtual seconds after disconnect() was called and received "
                                              f"{len(received)} of {len(state.get('accepted') or b'')} bytes"
                                              f"{' (' + state['peer_error'] + ')' if state.get('peer_error') else ''}", case)


async def kernel_timeout_case(ctx, seed: int) -> None:
    """If the transport configured kernel-level timers on its socket (TCP_USER_TIMEOUT, keep-alive probes), a peer that is
    alive but does not read for longer than that must still get every line: the stall is sized from the socket's own
    options (real seconds; 0.5 s when nothing is configured) - the verdict is what the peer received."""
    import random

    from aiomysensors.transport.tcp import TCPTransport

    rng = random.Random(seed)
    received = bytearray()
    start_reading = asyncio.Event()
    done = asyncio.Event()

    async def handler(reader, writer) -> None:
        try:
            await start_reading.wait()
            while True:
                data = await reader.read(65536)
                if not data:
                    break
                received.extend(data)
        except OSError:
            pass
        finally:
            done.set()
            writer.close()

    server = await asyncio.start_server(handler, "127.0.0.1", 0)
    server.sockets[0].setsockopt(socket.SOL_SOCKET, socket.SO_RCVBUF, 4096)
    transport = TCPTransport("127.0.0.1", server.sockets[0].getsockname()[1])
    failures: list[str] = []
    calls: list[str] = []
    try:
        await transport.connect()
        sock = transport.writer.get_extra_info("socket")
        options = {}
        for name in ("TCP_USER_TIMEOUT", "TCP_KEEPIDLE", "TCP_KEEPINTVL", "TCP_KEEPCNT"):
            try:
                options[name] = sock.getsockopt(socket.IPPROTO_TCP, getattr(socket, name))
            except (OSError, AttributeError):
                options[name] = None
        options["SO_KEEPALIVE"] = sock.getsockopt(socket.SOL_SOCKET, socket.SO_KEEPALIVE)
        stall = 0.5
        if options.get("TCP_USER_TIMEOUT"):
            stall = max(stall, options["TCP_USER_TIMEOUT"] / 1000 + 3)
        if options["SO_KEEPALIVE"] and options.get("TCP_KEEPIDLE") and options["TCP_KEEPIDLE"] < 60:
            stall = max(stall, options["TCP_KEEPIDLE"] + (options.get("TCP_KEEPINTVL") or 1) * (options.get("TCP_KEEPCNT") or 1) + 3)
        stall = min(stall, 45.0)
        case = {"engine": "kernel-timeout", "seed": seed, "socket_options": options, "stall_s": stall}
        sock.setsockopt(socket.SOL_SOCKET, socket.SO_SNDBUF, 4096)

        async def writer_task(index: int) -> None:
            for j in range(40):
                line = f"{index};{j};" + "y" * 2000 + "\n"
                calls.append(line)
                try:
                    await transport.write(line)
                except Exception as exc:  # noqa: BLE001
                    failures.append(f"{type(exc).__name__}: {exc!s:.80}")
                    return

        tasks = [asyncio.ensure_future(writer_task(i)) for i in range(3)]
        await asyncio.sleep(stall)
        start_reading.set()
        await asyncio.wait_for(asyncio.gather(*tasks), 120)
        await transport.disconnect()
        await asyncio.wait_for(done.wait(), 60)
    finally:
        server.close()
        await server.wait_closed()
    ctx.case(("kernel-timeout", seed, stall), sample=case)
    ctx.clause("peer-stalls-longer-than-socket-timers")
    ctx.obs(f"socket-user-timeout-ms:{options.get('TCP_USER_TIMEOUT')}")
    ctx.obs("stall-real-seconds", int(stall * 10) / 10)
    _ = rng
    if failures:
        ctx.violation("write-fails-without-io-error", f"the peer (alive) did not read for {stall} s (socket options {options}): "
                                                      f"write raised {failures[0]}", case)
    elif bytes(received) != "".join(calls).encode():
        ctx.violation("written-bytes-differ", f"the peer (alive) did not read for {stall} s (socket options {options}): it "
                                              f"received {len(received)} of {len(''.join(calls).encode())} bytes", case)


async def blocked_write_disconnect_case(ctx, ending: str, seed: int) -> None:
    """A write() is stuck in back-pressure (the peer does not read), ANOTHER task calls disconnect(), and then the peer
    resets the connection / starts reading / closes.  Whatever happens to the pending write, it ends with a transport
    error or returns - never with another exception - and disconnect absorbs the OS-level error."""
    from aiomysensors.transport.tcp import TCPTransport

    case = {"engine": "blocked-write-disconnect", "ending": ending, "seed": seed}
    release = asyncio.Event()
    peers: list = []

    async def handler(reader, writer) -> None:
        peers.append(writer)
        try:
            await release.wait()
            if ending == "peer-resets":
                sock = writer.get_extra_info("socket")
                sock.setsockopt(socket.SOL_SOCKET, socket.SO_LINGER, struct.pack("ii", 1, 0))
                writer.transport.abort()
                return
            if ending == "peer-reads":
                while await reader.read(65536):
                    pass
        except OSError:
            pass
        finally:
            writer.close()

    server = await asyncio.start_server(handler, "127.0.0.1", 0)
    server.sockets[0].setsockopt(socket.SOL_SOCKET, socket.SO_RCVBUF, 4096)
    transport = TCPTransport("127.0.0.1", server.sockets[0].getsockname()[1])
    outcomes: dict = {}
    try:
        await transport.connect()
        transport.writer.get_extra_info("socket").setsockopt(socket.SOL_SOCKET, socket.SO_SNDBUF, 4096)

        async def writer_task() -> None:
            try:
                for i in range(5000):
                    await transport.write(f"{i % 250};0;1;0;2;" + "z" * 2000 + "\n")
                    outcomes["lines"] = i + 1
                outcomes["write"] = "all written"
            except Exception as exc:  # noqa: BLE001
                outcomes["write"] = exc

        writing = asyncio.ensure_future(writer_task())
        blocked = 0
        for _ in range(1500):  # until the writer has completed no further write() for 15 consecutive checks (stability)
            before = outcomes.get("lines", 0)
            await asyncio.sleep(0.01)
            blocked = blocked + 1 if (outcomes.get("lines", 0) == before and before > 0 and not writing.done()) else 0
            if blocked >= 15:
                break
        outcomes["blocked"] = blocked >= 15

        async def closer() -> None:
            try:
                await transport.disconnect()
                outcomes["disconnect"] = "ok"
            except Exception as exc:  # noqa: BLE001
                outcomes["disconnect"] = exc

        closing = asyncio.ensure_future(closer())
        await asyncio.sleep(0.05)
        release.set()
        done, pending = await asyncio.wait([writing, closing], timeout=60)
        for task in pending:
            task.cancel()
        outcomes["pending"] = len(pending)
    finally:
        for peer in peers:
            peer.close()
        server.close()
        await server.wait_closed()
    ctx.case(("blocked-write-disconnect", ending, seed), sample=case)
    if not outcomes.get("blocked"):
        ctx.obs("blocked-write-disconnect:write-never-blocked")
        return
    ctx.clause("disconnect-while-a-write-is-blocked")
    write = outcomes.get("write")
    if isinstance(write, BaseException) and not is_transport_error(write):
        ctx.violation("io-error-not-transport-error", f"a write blocked in back-pressure while another task disconnected and "
                                                      f"then the {ending.replace('-', ' ')}: write raised {type(write).__name__}: "
                                                      f"{write!s:.80}", case)
    if isinstance(outcomes.get("disconnect"), BaseException):
        exc = outcomes["disconnect"]
        ctx.violation("disconnect-raises", f"disconnect with a blocked write ({ending}) raised {type(exc).__name__}: {exc!s:.80}", case)
    if outcomes.get("pending"):
        ctx.obs("blocked-write-disconnect:still-pending-after-60s")


async def retargeted_transport_case(ctx, kind: str) -> None:
    """One transport object, two sessions, and between them the application points it at ANOTHER peer: `transport.host` is
    re-assigned (TCP, two servers on 127.0.0.1 / 127.0.0.2 with the same port), or the symbolic link it was given is
    re-pointed at another tty (serial, /dev/serial/by-id/... after a USB re-enumeration).  The second session talks to the
    peer that is configured now."""
    case = {"engine": "retargeted", "kind": kind}
    received = {"a": bytearray(), "b": bytearray()}
    if kind == "tcp-host":
        from aiomysensors.transport.tcp import TCPTransport

        def handler_for(name: str):
            async def handler(reader, writer) -> None:
                try:
                    writer.write(f"0;255;3;0;14;hello from {name}\n".encode())
                    await writer.drain()
                    while True:
                        data = await reader.read(65536)
                        if not data:
                            break
                        received[name].extend(data)
                except OSError:
                    pass
                finally:
                    writer.close()
            return handler

        server_a = await asyncio.start_server(handler_for("a"), "127.0.0.1", 0)
        port = server_a.sockets[0].getsockname()[1]
        try:
            server_b = await asyncio.start_server(handler_for("b"), "127.0.0.2", port)
        except OSError as err:
            server_a.close()
            await server_a.wait_closed()
            ctx.skip("second-loopback-address", str(err))
            return
        transport = TCPTransport("127.0.0.1", port)
        lines = []
        try:
            await transport.connect()
            lines.append(await asyncio.wait_for(transport.read(), 10))
            await transport.write("1;0;1;0;2;to-a\n")
            await transport.disconnect()
            transport.host = "127.0.0.2"
            await transport.connect()
            lines.append(await asyncio.wait_for(transport.read(), 10))
            await transport.write("1;0;1;0;2;to-b\n")
            await transport.disconnect()
            await asyncio.sleep(0.05)
        except Exception as exc:  # noqa: BLE001
            lines.append(f"<{type(exc).__name__}: {exc!s:.60}>")
        finally:
            for server in (server_a, server_b):
                server.close()
                await server.wait_closed()
    else:
        from aiomysensors.transport.serial import SerialTransport

        base = str(__import__("vf.ctx", fromlist=["scratch_dir"]).scratch_dir("c17-link"))
        link = os.path.join(base, "usb-gateway-if00")
        pairs = [os.openpty(), os.openpty()]
        for master, _slave in pairs:
            tty.setraw(master)
            os.set_blocking(master, False)
        loop = asyncio.get_running_loop()
        for name, (master, _slave) in zip("ab", pairs):
            loop.add_reader(master, lambda m=master, n=name: received[n].extend(os.read(m, 65536)))
        lines = []
        try:
            os.symlink(os.ttyname(pairs[0][1]), link)
            transport = SerialTransport(link)
            await transport.connect()
            os.write(pairs[0][0], b"0;255;3;0;14;hello from a\n")
            lines.append(await asyncio.wait_for(transport.read(), 10))
            await transport.write("1;0;1;0;2;to-a\n")
            await transport.disconnect()
            os.unlink(link)
            os.symlink(os.ttyname(pairs[1][1]), link)  # the device re-enumerated: the stable name now leads elsewhere
            await transport.connect()
            os.write(pairs[1][0], b"0;255;3;0;14;hello from b\n")
            lines.append(await asyncio.wait_for(transport.read(), 10))
            await transport.write("1;0;1;0;2;to-b\n")
            await asyncio.sleep(0.05)
            await transport.disconnect()
            await asyncio.sleep(0.05)
        except Exception as exc:  # noqa: BLE001
            lines.append(f"<{type(exc).__name__}: {exc!s:.60}>")
        finally:
            for master, slave in pairs:
                loop.remove_reader(master)
                os.close(master)
                os.close(slave)
            __import__("shutil").rmtree(base, ignore_errors=True)
    ctx.case(("retargeted", kind), sample=case)
    ctx.clause("transport-pointed-at-another-peer")
    want_lines = ["0;255;3;0;14;hello from a\n", "0;255;3;0;14;hello from b\n"]
    if lines != want_lines:
        ctx.violation("read-not-a-line-of-the-stream", f"{kind}: after the transport was pointed at peer b the sessions read "
                                                       f"{lines!r:.160}, expected {want_lines!r}", case)
    elif bytes(received["a"]) != b"1;0;1;0;2;to-a\n" or bytes(received["b"]) != b"1;0;1;0;2;to-b\n":
        ctx.violation("written-bytes-differ", f"{kind}: peer a received {bytes(received['a'])!r:.60}, peer b "
                                              f"{bytes(received['b'])!r:.60}", case)


def two_loop_backpressure(ctx, n_writers: int, line_size: int, seed: int, loops: int = 2) -> None:
    """The same transport object used in successive sessions that each run under their OWN event loop (an application
    that calls asyncio.run(main(transport)) again after a lost connection); every session has back-pressured concurrent
    writers, so anything the transport keeps between sessions (locks, events, queues) is contended under both loops."""
    transport, port = None, 0
    for index in range(loops):
        loop = asyncio.new_event_loop()
        try:
            transport, port = loop.run_until_complete(
                backpressure_case(ctx, n_writers, line_size, seed + index, transport, port, loops, seed))
            ctx.clause("transport-reused-under-new-event-loop") if index else None
        except OSError as err:
            # the peer's port of the first session was taken by another process in between (busy machine): not a verdict
            import errno

            if err.errno != errno.EADDRINUSE:
                raise
            ctx.skip("two-loop-backpressure", str(err))
            return
        finally:
            loop.run_until_complete(loop.shutdown_asyncgens())
            loop.close()


async def serial_case(ctx, stream: bytes, chunk_sizes: list[int], writes: list[str]) -> None:
    """(c) pty-backed SerialTransport."""
    from aiomysensors.transport.serial import SerialTransport

    master, slave = os.openpty()
    case = {"engine": "serial-pty", "stream": stream.hex() if len(stream) < 2000 else f"<{len(stream)} bytes>",
            "chunks": chunk_sizes[:20], "writes": writes[:5]}
    transport = SerialTransport(os.ttyname(slave))
    loop = asyncio.get_running_loop()
    try:
        await transport.connect()
        os.set_blocking(master, False)

        async def feeder() -> None:
            pos = 0
            for size in itertools.cycle(chunk_sizes or [64]):
                if pos >= len(stream):
                    break
                chunk = stream[pos:pos + min(size, 512)]
                try:
                    written = os.write(master, chunk)
                except BlockingIOError:
                    written = 0
                pos += written
                await asyncio.sleep(0.0005 if written == 0 else 0)

        feed_task = asyncio.ensure_future(feeder())
        expected = [e for e in reference(stream, False)]
        results: list[tuple[str, object]] = []
        for _ in range(len(expected)):
            try:
                results.append(("line", await asyncio.wait_for(transport.read(), 10)))
            except asyncio.TimeoutError:
                ctx.obs("serial-case-timeout")
                break
            except Exception as exc:  # noqa: BLE001
                results.append(("error", exc))
                if expected and expected[-1] == ("error", "overlong") and len(results) >= len(expected):
                    break
        feed_task.cancel()
        await asyncio.gather(feed_task, return_exceptions=True)
        judge_reads(ctx, case, stream, False, results)
        want = "".join(writes).encode("utf-8")
        received = bytearray()
        immediate = len(stream) % 2 == 0 and sum(len(w) for w in writes) < 3000
        for line in writes:
            await transport.write(line)
            if immediate:
                continue  # no yield between the writes and the disconnect below: nothing accepted may be dropped
            await asyncio.sleep(0)
            try:
                received.extend(os.read(master, 65536))
            except BlockingIOError:
                pass
        if immediate:
            ctx.clause("write-then-immediate-disconnect")
            try:
                await asyncio.wait_for(transport.disconnect(), 10)
            except Exception as exc:  # noqa: BLE001
                ctx.violation("disconnect-raises", f"serial disconnect raised {type(exc).__name__}: {exc!s:.80}", case)
        for _ in range(200):
            if len(received) >= len(want):
                break
            await asyncio.sleep(0.002)
            try:
                received.extend(os.read(master, 65536))
            except BlockingIOError:
                pass
        ctx.clause("bytes-at-peer")
        if bytes(received) != want:
            ctx.violation("written-bytes-differ", f"pty master received {bytes(received)!r:.100}, written lines encode to "
                                                  f"{want!r:.100}", case)
        ctx.clause("disconnect-absorbs-os-errors")
        try:
            await asyncio.wait_for(transport.disconnect(), 10)
        except Exception as exc:  # noqa: BLE001
            ctx.violation("disconnect-raises", f"serial disconnect raised {type(exc).__name__}: {exc!s:.80}", case)
    finally:
        for fd in (master, slave):
            try:
                os.close(fd)
            except OSError:
                pass
        _ = loop
    ctx.case(("serial", stream, tuple(chunk_sizes[:20]), tuple(writes)), nontrivial=True, sample=case)


async def cancelled_connect_case(ctx, k: int, host: str) -> None:
    """The application gives up on a connection attempt (task.cancel() / wait_for timeout against a gateway that is slow to
    answer) after k loop iterations and tries again: the new attempt reaches the (healthy) peer, lines flow both ways."""
    from aiomysensors.transport.tcp import TCPTransport

    received = bytearray()

    async def handler(reader, writer) -> None:
        writer.write(b"7;0;1;0;2;after retry\n")
        try:
            await writer.drain()
            while True:
                data = await reader.read(4096)
                if not data:
                    break
                received.extend(data)
        except OSError:
            pass
        finally:
            writer.close()

    server = await asyncio.start_server(handler, "127.0.0.1", 0)
    port = server.sockets[0].getsockname()[1]
    case = {"engine": "cancelled-connect", "k": k, "host": host}
    ctx.case(("cancelled-connect", k, host), nontrivial=True, sample=case)
    transport = TCPTransport(host, port)
    try:
        attempt = asyncio.ensure_future(transport.connect())
        for _ in range(k):
            await asyncio.sleep(0)
        attempt.cancel()
        try:
            await attempt
            ctx.obs("cancelled-connect:first-attempt-completed")
        except asyncio.CancelledError:
            ctx.obs("cancelled-connect:first-attempt-cancelled")
        except Exception as exc:  # noqa: BLE001
            ctx.obs("cancelled-connect:first-attempt-raised:" + type(exc).__name__)
        ctx.clause("connect-after-cancelled-attempt")
        try:
            await asyncio.wait_for(transport.connect(), 30)
        except asyncio.TimeoutError:
            ctx.obs("cancelled-connect-watchdog")
            return
        except Exception as exc:  # noqa: BLE001
            ctx.violation("connect-raises", f"a connection attempt was cancelled after {k} loop iterations; the next connect() to "
                                            f"the listening peer raised {type(exc).__name__}: {exc!s:.100}", case)
            return
        try:
            line = await asyncio.wait_for(transport.read(), 30)
            await transport.write("7;0;1;0;2;from client\n")
            await asyncio.wait_for(transport.disconnect(), 30)
            for _ in range(200):
                if received.endswith(b"\n"):
                    break
                await asyncio.sleep(0.01)
        except asyncio.TimeoutError:
            ctx.obs("cancelled-connect-watchdog")
            return
        except Exception as exc:  # noqa: BLE001
            ctx.violation("io-error-after-reconnect", f"after the retried connect: {type(exc).__name__}: {exc!s:.100}", case)
            return
        if line != "7;0;1;0;2;after retry\n":
            ctx.violation("reads-differ-from-stream", f"after the retried connect read {line!r}", case)
        if b"7;0;1;0;2;from client\n" not in bytes(received):
            ctx.obs("cancelled-connect:write-not-seen-in-time")
    finally:
        server.close()
        await server.wait_closed()


def abandoned_connection_case(ctx, variant: str) -> None:
    """An application whose event loop died (asyncio.run ended by an error) never left the transport cleanly; it starts a
    new loop and connects again with the SAME transport object while the gateway is not reachable: a failed connection
    attempt is a TransportError - whatever the object still holds from the dead loop - and a later attempt succeeds."""
    from aiomysensors.transport.tcp import TCPTransport

    listener = socket.socket()
    listener.setsockopt(socket.SOL_SOCKET, socket.SO_REUSEADDR, 1)
    listener.bind(("127.0.0.1", 0))
    listener.listen(8)
    listener.settimeout(20)
    port = listener.getsockname()[1]
    spare = socket.socket()
    spare.bind(("127.0.0.1", 0))
    closed_port = spare.getsockname()[1]  # stays bound and never listens: refused, and no other process can take it
    case = {"engine": "abandoned-connection", "variant": variant}
    ctx.case(("abandoned-connection", variant), nontrivial=True, sample=case)
    transport = TCPTransport("127.0.0.1", port)
    peers = [spare]
    try:
        async def first() -> None:
            await asyncio.wait_for(transport.connect(), 20)
            await transport.write("1;1;1;0;2;1\n")
            if variant == "pending-read":
                task = asyncio.ensure_future(transport.read())
                await asyncio.sleep(0.01)
                _ = task
            raise KeyError("the application dies without leaving the transport")

        loop = asyncio.new_event_loop()
        try:
            loop.run_until_complete(first())
        except KeyError:
            pass
        except (asyncio.TimeoutError, OSError) as err:
            ctx.skip("abandoned-connection", f"set-up connect failed: {err!r:.80}")
            return
        finally:
            for task in asyncio.all_tasks(loop):
                task.cancel()
            if variant != "loop-left-open":
                loop.close()
        peers.append(listener.accept()[0])

        async def second() -> dict:
            out: dict = {}
            transport.port = closed_port
            ctx.clause("connect-failure-is-transport-error")
            try:
                await asyncio.wait_for(transport.connect(), 20)
                out["refused"] = "returned"
            except asyncio.TimeoutError:
                out["refused"] = "watchdog"
            except BaseException as exc:  # noqa: BLE001
                out["refused"] = exc
            transport.port = port
            try:
                await asyncio.wait_for(transport.connect(), 20)
                peer = listener.accept()[0]
                peers.append(peer)
                peer.sendall(b"5;0;1;0;2;again\n")
                out["line"] = await asyncio.wait_for(transport.read(), 20)
                await asyncio.wait_for(transport.disconnect(), 20)
            except asyncio.TimeoutError:
                out["again"] = "watchdog"
            except BaseException as exc:  # noqa: BLE001
                out["again"] = exc
            return out

        loop2 = asyncio.new_event_loop()
        try:
            out = loop2.run_until_complete(second())
        finally:
            loop2.close()
            if variant == "loop-left-open":
                loop.close()
        ctx.clause("connect-under-new-loop-after-abandoned-session")
        refused = out.get("refused")
        if refused == "watchdog" or out.get("again") == "watchdog":
            ctx.obs("abandoned-connection-watchdog")
        if refused == "returned":
            ctx.violation("connect-failure-succeeded", "connect to a closed port returned", case)
        elif isinstance(refused, BaseException) and not is_transport_error(refused):
            ctx.violation("connect-failure-not-transport-error",
                          f"the transport still held the connection of a dead event loop; connect to a refusing port under "
                          f"the new loop raised {type(refused).__name__}: {refused!s:.80}", case)
        again = out.get("again")
        if isinstance(again, BaseException):
            ctx.violation("reconnect-under-new-loop-failed", f"connecting again once the gateway is reachable raised "
                                                             f"{type(again).__name__}: {again!s:.80}", case)
        elif again is None and out.get("line") != "5;0;1;0;2;again\n":
            ctx.violation("reads-differ-from-stream", f"after reconnecting under the new loop read {out.get('line')!r}", case)
    finally:
        for peer in peers:
            peer.close()
        listener.close()


async def serial_url_case(ctx, lines: list[str], write: str) -> None:
    """The serial port is whatever string pyserial opens - also its URL forms (a ser2net / esp-link bridge:
    'socket://host:port').  The string reaches pyserial as given: the lines the bridge sends are read, a written line arrives."""
    from aiomysensors.transport.serial import SerialTransport

    received = bytearray()
    done = asyncio.Event()

    async def handle(reader: asyncio.StreamReader, writer: asyncio.StreamWriter) -> None:
        writer.write("".join(lines).encode())
        await writer.drain()
        while not received.endswith(b"\n"):
            chunk = await reader.read(4096)
            if not chunk:
                break
            received.extend(chunk)
        done.set()
        await reader.read()  # until the client closes
        writer.close()

    server = await asyncio.start_server(handle, "127.0.0.1", 0)
    port = server.sockets[0].getsockname()[1]
    url = f"socket://127.0.0.1:{port}"
    case = {"engine": "serial-url", "url": "socket://127.0.0.1:<port>", "lines": lines, "write": write}
    ctx.case(("serial-url", tuple(lines), write), nontrivial=True, sample=case)
    transport = SerialTransport(url)
    try:
        try:
            await asyncio.wait_for(transport.connect(), 30)
        except asyncio.TimeoutError:
            ctx.obs("serial-url-watchdog")
            return
        except Exception as exc:  # noqa: BLE001
            ctx.violation("serial-url-not-opened", f"SerialTransport({case['url']!r}).connect() raised {type(exc).__name__}: "
                                                   f"{exc!s:.100} although the bridge is listening", case)
            return
        ctx.clause("serial-url")
        got = []
        try:
            for _ in lines:
                got.append(await asyncio.wait_for(transport.read(), 30))
            await transport.write(write)
            await asyncio.wait_for(done.wait(), 30)
        except asyncio.TimeoutError:
            ctx.obs("serial-url-watchdog")
            return
        except Exception as exc:  # noqa: BLE001
            ctx.violation("serial-url-io-raised", f"{type(exc).__name__}: {exc!s:.100} after reading {got}", case)
            return
        ctx.clause("reads-vs-reference")
        if got != lines:
            ctx.violation("reads-differ-from-stream", f"serial URL port: read {got!r:.160}, the bridge sent {lines!r:.160}", case)
        ctx.clause("bytes-at-peer")
        if bytes(received) != write.encode():
            ctx.violation("bytes-at-peer-differ", f"serial URL port: wrote {write!r}, the bridge received {bytes(received)!r:.100}", case)
    finally:
        try:
            await asyncio.wait_for(transport.disconnect(), 30)
        except asyncio.TimeoutError:
            ctx.obs("serial-url-watchdog")
        except Exception as exc:  # noqa: BLE001
            ctx.violation("disconnect-raises", f"serial URL disconnect raised {type(exc).__name__}: {exc!s:.80}", case)
        server.close()
        await server.wait_closed()


async def misuse_cases(ctx) -> None:
    """Use before connect, refused connect, missing device, disconnect before connect."""
    from aiomysensors.transport.serial import SerialTransport
    from aiomysensors.transport.tcp import TCPTransport

    sock = socket.socket()
    sock.bind(("127.0.0.1", 0))
    free_port = sock.getsockname()[1]  # stays bound (never listening) while the cases run: refused, and not reusable
    for name, factory in (("tcp", lambda: TCPTransport("127.0.0.1", free_port)),
                          ("serial", lambda: SerialTransport("/dev/vf-does-not-exist"))):
        transport = factory()
        for op_name, op in (("read", transport.read), ("write", lambda t=transport: t.write("1;2;1;0;0;x\n"))):
            ctx.clause("use-before-connect")
            try:
                await op()
            except Exception as exc:  # noqa: BLE001
                if not is_transport_error(exc):
                    ctx.violation("use-before-connect-not-transport-error",
                                  f"{name}.{op_name} before connect raised {type(exc).__name__}", {"misuse": f"{name}.{op_name}"})
            else:
                ctx.violation("use-before-connect-succeeded", f"{name}.{op_name} before connect returned", {"misuse": name})
        ctx.clause("disconnect-absorbs-os-errors")
        try:
            await transport.disconnect()
        except Exception as exc:  # noqa: BLE001
            ctx.violation("disconnect-raises", f"{name}.disconnect before connect raised {type(exc).__name__}", {"misuse": name})
        ctx.clause("connect-failure-is-transport-error")
        try:
            await asyncio.wait_for(transport.connect(), 20)
        except Exception as exc:  # noqa: BLE001
            if not is_transport_error(exc):
                ctx.violation("connect-failure-not-transport-error", f"{name} connect failure raised {type(exc).__name__}: "
                                                                     f"{exc!s:.80}", {"misuse": name})
        else:
            ctx.violation("connect-failure-succeeded", f"{name} connect to nothing succeeded", {"misuse": name})
    # every way a connection attempt fails is an OSError of some kind (resolver errors carry NEGATIVE codes, some carry none)
    targets = [("no-such-host.invalid", 5003), ("", 5003), ("256.256.256.256", 5003), ("host name with blanks", 5003),
               ("127.0.0.1", 1), ("::1", 1), ("127.0.0.1", 0), ("0.0.0.0", 9), ("localhost.", free_port),
               ("xn--nxasmq6b.invalid", 80), ("a" * 300 + ".invalid", 80), ("127.0.0.1", 65535), ("gateway..lan", 5003),
               (".leading-dot.invalid", 5003), ("b" * 64 + ".invalid", 5003)]
    for host, port in targets:
        transport = TCPTransport(host, port)
        ctx.clause("connect-failure-is-transport-error")
        try:
            await asyncio.wait_for(transport.connect(), 20)
        except asyncio.TimeoutError:
            ctx.obs("connect-failure-target-timeout")
        except Exception as exc:  # noqa: BLE001
            ctx.obs("connect-failure:" + type(exc.__cause__).__name__ if exc.__cause__ is not None else "connect-failure:no-cause")
            if not is_transport_error(exc):
                ctx.violation("connect-failure-not-transport-error", f"connect to {host!r:.40}:{port} raised "
                                                                     f"{type(exc).__name__}: {exc!s:.80}", {"misuse": f"connect {host!r:.40}:{port}"})
        else:
            ctx.obs("connect-failure-target-connected")
            await transport.disconnect()
    ctx.case(("misuse",), nontrivial=True)


SHORT_STREAMS = [
    b"a\nb\n", b"ab\n\ncd\n", b"\n\n\n", b"a\r\nb\r\n", b" a \n\tb\t\n", b"1;2;1;0;0;5\n", b"abc", b"a\nbc", b"\xff\xfe\n",
    b"a\n\xff\nb\n", b"\xc3\xa5\n", b"\xc3\n\xa5\n", b"\xe6\x97\xa5\n", b"\xf0\x9f\x98\x80\n", b"\xf0\x9f\x98\n", b"\x00\n\x00\n",
    b"a\nb", b"\na", b"a\n", b"", b"\n", b"\r\n", b"x\n\xc3", b"\xe2\x82\xac;\n", b"ab\ncd\nef\n", b";;;;;\n", b" \n \n",
    b"\xed\xa0\x80\n", b"a\x85b\n", b"\xc2\x85\n",
    b"\xef\xbb\xbfa\n", b"\xef\xbb\xbf\n\xef\xbb\xbfb\n", b"a\n\xef\xbb\xbf1;2;1;0;0;x\n", b"\xef\xbb\n", b"\xef\xbb\xbf",
]


def random_stream(rng) -> bytes:
    lines = []
    for _ in range(rng.randint(1, 8)):
        roll = rng.random()
        if roll < 0.5:
            payload = rng.choice(["", "5", " pad ", "åäö", "日本", "😀", "a;b", "x" * rng.randint(0, 300), "\t", "\r"])
            line = f"{rng.randint(0, 255)};{rng.randint(0, 255)};{rng.randint(0, 4)};0;{rng.randint(0, 50)};{payload}".encode()
        elif roll < 0.7:
            line = rng.choice([b"", b"", b"\xef\xbb\xbf", b"\xef\xbb\xbf1;2;", b"\xe2\x80\x8b", b"\xc2\xa0"]) + bytes(
                rng.choice([0x41, 0xFF, 0xC3, 0x28, 0x80, 0xE2, 0x82, 0x0D, 0x20, 0x00, 0x3B]) for _ in range(rng.randint(0, 8)))
        else:
            line = bytes(rng.randrange(256) for _ in range(rng.randint(0, 20))).replace(b"\n", b"")
        lines.append(line + b"\n")
    data = b"".join(lines)
    if rng.random() < 0.3:
        data = data[: rng.randrange(len(data) + 1)]
    return data


BANNERS = [b"ser2net port 5003 device /dev/ttyUSB0 [115200 N81] (Debian GNU/Linux)", b"\xff\xfb\x01\xff\xfb\x03\xff\xfd\x18",
           b"CONNECT 115200", b"OK", b"+++", b"AT", b"login: ", b"SSH-2.0-OpenSSH_9.2", b"HTTP/1.1 400 Bad Request",
           b"0;255;3;0;14;Gateway startup complete.", b"0;255;3;0;9;MCO:BGN:INIT GW,CP=RNNGA---,REL=255,VER=2.3.2",
           b"0;255;3;0;9;Starting gateway (RNNGA-, 2.0.0)", b"# comment", b"// comment", b"\x1b[0m", b"\x00\x00\x00", b">"]


def dictionary_streams(ctx) -> list[bytes]:
    """Streams whose first / middle / last line is text the transport code itself mentions (vf.codedict: string constants
    and regex examples of the transport modules, the ones the reference tree does not have first) or a banner that
    devices in front of a gateway are known to send.  A transport that treats ANY line specially shows up as a read that
    is not a line of the stream."""
    from .. import codedict

    try:
        texts = codedict.systematic_candidates(codedict.TRANSPORT_MODULES, ctx.pick(120, 600))
    except Exception:  # noqa: BLE001
        texts = []
    out = []
    for item in [*BANNERS, *(t.encode("utf-8", "replace") for t in texts)]:
        item = item.replace(b"\n", b" ")
        out.append(item + b"\n1;2;1;0;0;first\n2;0;1;0;2;second\n")
        out.append(b"1;255;3;0;14;up\n" + item + b"\n" + item + b" 5003 device\n")
        out.append(item)
    return out


def length_sweep_writes(rng) -> list[str]:
    """Lines of every character length 1..140 whose UTF-8 length differs from their character length by 0..9 bytes
    (chunked writers, byte/character confusions)."""
    out = []
    for length in range(1, 141):
        wide = rng.choice(["é", "日", "😀", "ß"])
        count = rng.choice([0, 1, 1, 2, 3])
        count = min(count, length)
        body = (wide * count + "a" * (length - count - 1))[: max(0, length - 1)]
        out.append(body + "\n")
    return out


def random_writes(rng) -> list[str]:
    pool = ["1;2;1;0;0;5\n", "0;255;3;0;2;\n", "1;0;1;0;49;55.7;13.0;18\n", "9;9;1;0;0;åäö\n", "9;9;1;0;0;日本😀\n", "x\n", "\n",
            " lead and trail \n", "a" * 5000 + "\n", "no-newline", "\x00\n"]
    return [rng.choice(pool) for _ in range(rng.randint(0, 8))]


def run_case(ctx, case: dict) -> None:
    if case.get("engine") == "streamreader" and not str(case["stream"]).startswith("<"):
        arun(reader_case(ctx, bytes.fromhex(case["stream"]), tuple(case["cuts"]), case["eof"]))
    elif case.get("engine") == "tcp" and not str(case["stream"]).startswith("<"):
        arun(tcp_case(ctx, bytes.fromhex(case["stream"]), case["chunks"], case["writes"], case.get("fault"),
                      case.get("host", "127.0.0.1")))
    elif str(case.get("engine", "")).startswith("cancelled-read-"):
        arun(cancelled_read_case(ctx, bytes.fromhex(case["stream"]), case["pattern"], case["engine"].split("-", 2)[2]))
    elif case.get("engine") == "tcp-backpressure":
        if case.get("loops", 1) > 1:
            two_loop_backpressure(ctx, case["writers"], case["line_size"], case["base_seed"], case["loops"])
        else:
            arun(backpressure_case(ctx, case["writers"], case["line_size"], case["seed"],
                                   cancel_blocked=case.get("cancel_blocked", False)))
    elif case.get("engine") == "tcp-reconnect":
        arun(reconnect_case(ctx, case["first_end"], bytes.fromhex(case["stream"]), case["writes"],
                            case.get("disconnect_between", True)))
    elif case.get("engine") == "cancelled-connect":
        arun(cancelled_connect_case(ctx, case["k"], case["host"]))
    elif case.get("engine") == "abandoned-connection":
        abandoned_connection_case(ctx, case["variant"])
    elif case.get("engine") == "serial-url":
        arun(serial_url_case(ctx, case["lines"], case["write"]))
    elif case.get("engine") == "serial-pty" and not str(case["stream"]).startswith("<"):
        arun(serial_case(ctx, bytes.fromhex(case["stream"]), case["chunks"], case["writes"]))
    elif case.get("engine") == "retargeted":
        arun(retargeted_transport_case(ctx, case["kind"]))
    elif case.get("engine") == "blocked-write-disconnect":
        arun(blocked_write_disconnect_case(ctx, case["ending"], case["seed"]))
    elif case.get("engine") == "stalled-close":
        stalled_close_case(ctx, case["stall_s"], case["total_kib"])
    elif case.get("engine") == "kernel-timeout":
        arun(kernel_timeout_case(ctx, case["seed"]))
    elif str(case.get("engine", "")).startswith("quiet-"):
        quiet_connection_case(ctx, case["quiet_s"], case["pending_read"], case["engine"].split("-", 1)[1])
    else:
        arun(misuse_cases(ctx))


def run(ctx) -> None:
    rng = ctx.rng
    with Reach(ANCHORS) as reach:
        count = 0
        for stream in SHORT_STREAMS:
            n = len(stream)
            positions = range(1, n)
            for r in range(0, n):
                for cuts in itertools.combinations(positions, r):
                    if not ctx.mine():
                        continue
                    count += 1
                    arun(reader_case(ctx, stream, cuts, eof=True))
                    if r == 0:
                        arun(reader_case(ctx, stream, cuts, eof=False))
        ctx.exhaustive["all-chunkings-of-short-streams"] = count
        for i in range(ctx.pick(2000, 400000) // ctx.shard_count):
            stream = random_stream(rng)
            cuts = tuple(sorted(rng.sample(range(1, max(2, len(stream))), min(max(0, len(stream) - 1), rng.randint(0, 6)))))
            arun(reader_case(ctx, stream, cuts, eof=rng.random() < 0.7))
        patterns = [["cancel-before"], ["read", "cancel-before"], ["cancel-mid", "read"], ["timeout-before", "read", "cancel-mid"],
                    ["cancel-before", "cancel-before", "read"], ["read"]]
        for i, pattern in enumerate(patterns):
            for engine in ("streamreader", "tcp"):
                if ctx.mine(i):
                    arun(cancelled_read_case(ctx, b"l0;a\nl1;bb\nl2;ccc\nl3;\xc3\xa5\nl4\nl5;end\n", pattern, engine))
        if ctx.shard_index == 0:
            for big in (b"x" * 70000 + b"\nafter\n", b"a\n" + b"y" * 66000 + b"\nz\n", b"q" * 65536 + b"\n", b"q" * 65535 + b"\nok\n"):
                for cuts in ((), (10,), (65536,), (4096, 8192, 70000)):
                    arun(reader_case(ctx, big, tuple(c for c in cuts if c < len(big)), eof=True))
            arun(misuse_cases(ctx))
        # loopback TCP
        try:
            probe = socket.socket()
            probe.bind(("127.0.0.1", 0))
            probe.close()
            loopback = True
        except OSError as err:
            loopback = False
            ctx.skip("loopback-tcp", str(err))
        if loopback:
            for i in range(ctx.pick(200, 6000) // ctx.shard_count):
                stream = random_stream(rng) if i % 10 else rng.choice([b"x" * 70000 + b"\nafter\n", b"ok\n" * 2000])
                sizes = [rng.choice([1, 2, 3, 7, 64, 1000, 65536]) for _ in range(rng.randint(1, 8))]
                fault = "reset-after-stream" if i % 5 == 0 else None
                arun(tcp_case(ctx, stream, sizes, length_sweep_writes(rng) if i % 7 == 3 else random_writes(rng), fault))
            # address families: IPv6 loopback where the machine has it (peer addresses are 4-tuples there)
            try:
                probe6 = socket.socket(socket.AF_INET6)
                probe6.bind(("::1", 0))
                probe6.close()
                hosts = ["::1", "localhost"]
            except OSError as err:
                hosts = []
                ctx.skip("ipv6-loopback", str(err))
            for i, host in enumerate(hosts * 3):
                if ctx.mine(i):
                    ctx.clause("tcp-over-" + ("ipv6" if host == "::1" else "localhost"))
                    arun(tcp_case(ctx, random_stream(rng), [rng.choice([1, 7, 65536])], random_writes(rng), None, host=host))
            for i, stream in enumerate(dictionary_streams(ctx)):
                if ctx.mine(i):
                    ctx.clause("dictionary-stream")
                    arun(tcp_case(ctx, stream, [rng.choice([1, 3, 64, 65536])], ["w\n"], None))
                    arun(reader_case(ctx, stream, (len(stream) // 2,), eof=True))
            # the same failures on an event loop in asyncio debug mode (python -X dev, asyncio.run(debug=True))
            from ..harness import run_debug

            for i, (stream, fault) in enumerate([(b"1;0;1;0;2;a\n2;0;1;0;2;b\n", "reset-after-stream"), (b"1;0;1;0;2;a\nhalf", None),
                                                 (b"x" * 70000 + b"\nafter\n", "reset-after-stream"), (b"\xff\xfe\n", None)]):
                if ctx.mine(i + 1):
                    ctx.clause("debug-mode-loop")
                    run_debug(tcp_case(ctx, stream, [7, 65536], ["w1\n", "w2\n"], fault))
            if ctx.mine(3):
                ctx.clause("debug-mode-loop")
                run_debug(reconnect_case(ctx, "reset", b"4;1;1;0;2;1\nsecond;2\n", ["w1\n"]))
            for i, first_end in enumerate(("eof", "reset", "open", "eof-midline", "reset", "eof-midline")):
                if ctx.mine(i):
                    arun(reconnect_case(ctx, first_end, b"4;1;1;0;2;1\nsecond;2\n", ["w1\n", "w2 \xe5\n"]))
                    arun(reconnect_case(ctx, first_end, b"4;1;1;0;2;1\nsecond;2\n", ["w1\n", "w2 \xe5\n"],
                                        disconnect_between=False))
            for i in range(ctx.pick(12, 300) // ctx.shard_count + 1):
                arun(backpressure_case(ctx, rng.choice([2, 3, 5, 8]), rng.choice([2000, 20000, 70000]),
                                       ctx.seed * 100000 + ctx.shard_index * 1000 + i))
                arun(backpressure_case(ctx, rng.choice([2, 3, 5, 8]), rng.choice([2000, 20000, 70000]),
                                       ctx.seed * 100000 + ctx.shard_index * 1000 + 500 + i, cancel_blocked=True))
            from .. import codedict

            for i, (quiet_s, pending) in enumerate([(35, False), (35, True), (65, False), (320, True), (3700, False),
                                                    (90000, True), *((d, bool(k % 2)) for k, d in enumerate(codedict.durations())
                                                                     if d >= 5)]):
                if ctx.mine(i):
                    quiet_connection_case(ctx, quiet_s, pending, "tcp")
            for i, (stall_s, kib) in enumerate([(1, 40), (4, 56), (6, 56), (11, 48), (31, 60), (61, 32), (301, 56), (3601, 60)]):
                if ctx.mine(i):
                    stalled_close_case(ctx, stall_s, kib)
            if ctx.shard_index == (4 % ctx.shard_count):
                arun(kernel_timeout_case(ctx, ctx.seed))
            for i, kind in enumerate(("tcp-host", "serial-link")):
                if ctx.mine(i + 2):
                    try:
                        arun(retargeted_transport_case(ctx, kind))
                    except OSError as err:
                        ctx.skip("retargeted-" + kind, str(err))
            for i, ending in enumerate(("peer-resets", "peer-reads", "peer-closes")):
                if ctx.mine(i + 1):
                    arun(blocked_write_disconnect_case(ctx, ending, ctx.seed))
            for i in range(ctx.pick(3, 40) // ctx.shard_count + 1):
                two_loop_backpressure(ctx, rng.choice([3, 5, 8]), rng.choice([2000, 20000, 70000]),
                                      ctx.seed * 100000 + ctx.shard_index * 1000 + 500 + i, loops=rng.choice([2, 2, 3]))
        index = 0
        for host in ("127.0.0.1", "localhost"):
            for k in (0, 1, 2, 3, 5, 8):
                index += 1
                if ctx.mine(index):
                    try:
                        arun(cancelled_connect_case(ctx, k, host))
                    except OSError as err:
                        ctx.skip("cancelled-connect", str(err))
        for i, variant in enumerate(("plain", "pending-read", "loop-left-open")):
            if ctx.mine(i + 6):
                try:
                    abandoned_connection_case(ctx, variant)
                except OSError as err:
                    ctx.skip("abandoned-connection", str(err))
        for i, (lines, write) in enumerate([(["1;0;1;0;2;hello\n", "2;255;3;0;0;77\n"], "9;9;1;0;2;w\n"),
                                            (["0;255;3;0;14;Gateway startup complete.\n"], "0;255;3;0;2;\n")]):
            if ctx.mine(i + 5):
                try:
                    arun(serial_url_case(ctx, lines, write))
                except OSError as err:
                    ctx.skip("serial-url", str(err))
        # pty
        try:
            a, b = os.openpty()
            os.close(a)
            os.close(b)
            pty_ok = True
        except OSError as err:
            pty_ok = False
            ctx.skip("serial-pty", str(err))
        if pty_ok:
            for i in range(ctx.pick(60, 3000) // ctx.shard_count):
                stream = random_stream(rng)
                if not stream.endswith(b"\n"):
                    stream += b"\n"
                sizes = [rng.choice([1, 2, 5, 17, 64, 300]) for _ in range(rng.randint(1, 6))]
                writes = [w for w in random_writes(rng) if len(w) < 1000]
                if i % 6 == 0:
                    writes = length_sweep_writes(rng)
                arun(serial_case(ctx, stream, sizes, writes))
    reach.into(ctx)
    for clause in ("reads-vs-reference", "bytes-at-peer", "use-before-connect", "disconnect-absorbs-os-errors",
                   "write-order-around-cancelled-writes"):
        ctx.require(clause, 4)
