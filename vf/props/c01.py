"""C01 - wire codec round trip (generated round-trip monitor).

Oracle: independent formatter for the encoded form, field-wise equality after decode,
and for plain-decimal lines  dump(load(l)) == l.rstrip()+"\\n".  Also at gateway level:
listen() yields the spelled fields for pass-through messages and send() hands exactly the
encoded line to Transport.write.
"""

from __future__ import annotations

import itertools

from .. import gens, spec
from ..harness import VERSIONS, Stepper, fields_of, new_gateway, schema_for
from ..harness import run as arun
from ..reach import Reach

LEVEL = "exploration"
SHARDS = {"quick": 4, "thorough": 16}
RULE = ("exhaustive product of boundary ids/commands/ack/types filtered by the cross-field rules x payload pool x 5 "
        "versions, plus seeded random well-formed messages with random payloads (no line terminator, no trailing "
        "whitespace) and random plain-decimal lines with trailing blanks; a case is one (version, message or line); "
        "distinct = distinct canonical tuple; non-trivial = payload non-empty or some id at a boundary value")
ASSUMES = ["payload free of line terminators = no character str.splitlines splits on; lone surrogates are not text",
           "Message objects are built with the public constructor"]
ANCHORS = ["aiomysensors.model.message:MessageSchema.to_dict", "aiomysensors.model.message:MessageSchema.to_string",
           "aiomysensors.model.message:MessageSchema.make_message", "aiomysensors.gateway:Gateway.send",
           "aiomysensors.gateway:Gateway.listen"]


def key_for(what: str) -> str:
    return what


def check_message(ctx, schema, version: str, fields: tuple) -> None:
    """Schema-level round trip of one well-formed message."""
    from aiomysensors.model.message import Message

    case = {"kind": "message", "version": version, "fields": list(fields)}
    node, child, cmd, ack, mtype, payload = fields
    nontrivial = bool(payload) or node in (0, 254, 255) or child in (0, 255)
    ctx.case(("m", version, fields), nontrivial=nontrivial, sample=case)
    expected_line = f"{node};{child};{cmd};{ack};{mtype};{payload}\n"
    try:
        encoded = schema.dump(Message(*fields))
    except Exception as exc:  # noqa: BLE001
        ctx.violation("encode-raises", f"dump raised {type(exc).__name__}: {exc}"[:300], case)
        return
    ctx.clause("encoded-form")
    if encoded != expected_line:
        ctx.violation("encoded-form-differs", f"encoded {encoded!r:.120} expected {expected_line!r:.120}", case)
        return
    try:
        decoded = schema.load(encoded)
    except Exception as exc:  # noqa: BLE001
        ctx.violation("decode-rejects-own-encoding",
                      f"load(dump(m)) raised {type(exc).__name__} for {expected_line!r:.120}", case)
        return
    ctx.clause("roundtrip-fields")
    got = fields_of(decoded)
    if got != fields or any(type(a) is not type(b) for a, b in zip(got, fields)):
        key = "roundtrip-field-differs"
        if got[:5] == fields[:5] and isinstance(got[5], str) and fields[5].startswith(got[5]) and ";" in fields[5]:
            key = "decode-truncates-at-delimiter"
        ctx.violation(key, f"decoded {got!r:.160} != original {fields!r:.160}", case)


def typed_message(version: str, fields: tuple, variant: int):
    """The same message, its fields given the way applications give them: bool for the ack flag, IntEnum members of the
    protocol module for command / type, IntEnum ids, attributes assigned after construction (not coerced by __init__)."""
    from enum import IntEnum

    from aiomysensors.model.message import Message
    from aiomysensors.model.protocol import get_protocol

    node, child, cmd, ack, mtype, payload = fields
    protocol = get_protocol(version)

    def member(enum_cls, value):
        try:
            return enum_cls(value)
        except ValueError:
            return value

    type_enum = {0: protocol.Presentation, 1: protocol.SetReq, 2: protocol.SetReq, 3: protocol.Internal,
                 4: protocol.Stream}[cmd]
    ids = IntEnum("Ids", {"node": node, "child": child}) if node != child else IntEnum("Ids", {"node": node})
    e_node, e_child = ids.node, (ids.child if node != child else ids.node)
    if variant == 0:
        return Message(node, child, cmd, bool(ack), mtype, payload)
    if variant == 1:
        return Message(e_node, e_child, member(protocol.Command, cmd), IntEnum("Ack", {"flag": ack}).flag,
                       member(type_enum, mtype), payload)
    message = Message()
    message.node_id, message.child_id = (e_node, e_child) if variant == 3 else (node, child)
    message.command = member(protocol.Command, cmd) if variant == 3 else cmd
    message.ack = bool(ack) if variant == 3 else ack
    message.message_type = member(type_enum, mtype) if variant == 3 else mtype
    message.payload = payload
    return message


def check_typed(ctx, schema, version: str, fields: tuple, variant: int) -> None:
    case = {"kind": "typed", "version": version, "fields": list(fields), "variant": variant}
    node, child, cmd, ack, mtype, payload = fields
    expected_line = f"{node};{child};{cmd};{ack};{mtype};{payload}\n"
    ctx.case(("t", version, fields, variant), sample=case)
    ctx.clause("typed-fields-encode")
    try:
        encoded = schema.dump(typed_message(version, fields, variant))
    except Exception as exc:  # noqa: BLE001
        ctx.violation("encode-raises", f"dump of a message with bool / IntEnum typed fields (variant {variant}) raised "
                                       f"{type(exc).__name__}: {exc}"[:300], case)
        return
    if encoded != expected_line:
        ctx.violation("encoded-form-differs", f"message with bool / IntEnum typed fields (variant {variant}) encoded as "
                                              f"{encoded!r:.120}, expected {expected_line!r:.120}", case)


def check_line(ctx, schema, version: str, line: str) -> None:
    """Plain-decimal well-formed line: decode then re-encode reproduces it up to trailing whitespace."""
    case = {"kind": "line", "version": version, "line": line}
    ctx.case(("l", version, line), nontrivial=True, sample=case)
    try:
        message = schema.load(line)
        again = schema.dump(message)
    except Exception as exc:  # noqa: BLE001
        ctx.violation("wellformed-line-rejected", f"{type(exc).__name__} for line {line!r:.120}", case)
        return
    ctx.clause("line-reencode")
    if again != line.rstrip() + "\n":
        key = "reencode-differs"
        if line.rstrip().startswith(again.rstrip("\n")) and line.count(";") > 5:
            key = "decode-truncates-at-delimiter"
        ctx.violation(key, f"dump(load(l)) = {again!r:.120} for l = {line!r:.120}", case)


async def gateway_level(ctx, version: str, fields: tuple) -> None:
    """listen() yields the spelled fields; send() hands the encoded line to Transport.write."""
    from aiomysensors.model.message import Message

    node, child, cmd, ack, mtype, payload = fields
    case = {"kind": "gateway", "version": version, "fields": list(fields)}
    gateway, transport = new_gateway(version)
    stepper = Stepper(gateway, transport)
    # make node and child known through the wire so a set message passes through
    await stepper.rx(f"{node};255;0;0;17;{version}\n")
    await stepper.rx(f"{node};{child};0;0;6;desc\n")
    transport.take_writes()
    line = f"{node};{child};1;{ack};{mtype};{payload}\n"
    kind, value = await stepper.rx(line)
    ctx.clause("gateway-listen-yield")
    if kind != "yield":
        ctx.violation("gateway-listen-rejects", f"listen raised {type(value).__name__} for {line!r:.120}", case)
    elif fields_of(value) != (node, child, 1, ack, mtype, payload):
        key = "gateway-yield-differs"
        if ";" in payload and payload.startswith(str(value.payload)):
            key = "decode-truncates-at-delimiter"
        ctx.violation(key, f"yielded {fields_of(value)!r:.160} for line {line!r:.120}", case)
    stored = gateway.nodes[node].children[child].values.get(mtype) if node in gateway.nodes else None
    ctx.clause("gateway-stored-value")
    if kind == "yield" and stored != payload:
        ctx.violation("gateway-stored-differs", f"stored {stored!r:.80} for payload {payload!r:.80}", case)
    transport.take_writes()
    kind, value = await stepper.tx(Message(node, child, 1, ack, mtype, payload))
    writes = transport.take_writes()
    ctx.clause("gateway-send-line")
    if kind != "ok" or writes != [line]:
        ctx.violation("gateway-send-differs",
                      f"send -> {kind} {type(value).__name__ if value else ''} writes {writes!r:.160} expected {[line]!r:.160}",
                      case)
    await stepper.close()
    ctx.case(("g", version, fields), nontrivial=True)


def run_case(ctx, case: dict) -> None:
    version = case["version"]
    if case["kind"] in ("message", "typed", "line"):
        for via_context in (False, True):  # both ways of configuring the decoder (the run used one per shard)
            _run_schema_case(ctx, case, schema_for(version, via_context=via_context))
    else:
        arun(gateway_level(ctx, version, tuple(case["fields"])))


def _run_schema_case(ctx, case: dict, schema) -> None:
    version = case["version"]
    if case["kind"] == "message":
        check_message(ctx, schema, version, tuple(case["fields"]))
    elif case["kind"] == "typed":
        check_typed(ctx, schema, version, tuple(case["fields"]), case["variant"])
    elif case["kind"] == "line":
        check_line(ctx, schema, version, case["line"])
    else:
        arun(gateway_level(ctx, version, tuple(case["fields"])))


def run_workload(ctx) -> None:
    rng = ctx.rng
    # odd shards configure their decoders through the schema context instead of set_protocol()
    schemas = {v: schema_for(v, via_context=bool(ctx.shard_index % 2)) for v in VERSIONS}
    ctx.obs("decoder-configured-via:" + ("context" if ctx.shard_index % 2 else "set_protocol"))
    payloads = [p for p in gens.PAYLOAD_POOL if spec.payload_ok_for_roundtrip(p)]
    # text the codec / handler modules themselves mention (vf.codedict; text the reference tree does not have first)
    from ..histories import dictionary_payloads

    words = [w for w in dictionary_payloads()[: ctx.pick(150, 800)] if spec.payload_ok_for_roundtrip(w)]
    ctx.obs("dictionary-payloads", len(words))
    for index, word in enumerate(words):
        if ctx.mine(index):
            for version in VERSIONS:
                for head in ((1, 0, 1, 0, 2 + index % 50), (0, 255, 3, index % 2, 9), (200, 7, 2, 1, 24), (1, 255, 0, 0, 17)):
                    check_message(ctx, schemas[version], version, (*head, word))
                check_line(ctx, schemas[version], version, f"1;0;1;0;{index % 57};{word}")
    # 1. exhaustive small product
    heads = list(gens.wellformed_messages_small())
    count = 0
    for version in VERSIONS:
        for head, payload in itertools.product(heads, payloads):
            if ctx.mine():
                check_message(ctx, schemas[version], version, (*head, payload))
                count += 1
                if count % 5 == 0:
                    check_typed(ctx, schemas[version], version, (*head, payload), count // 5 % 4)
    ctx.exhaustive["boundary-product-cases"] = count
    # 2. plain-decimal lines with trailing blanks (exhaustive over a smaller head set)
    for version in VERSIONS:
        for head, payload, tail in itertools.product(heads[::7], payloads[:30], gens.NONPLAIN_TAILS):
            if ctx.mine():
                line = ";".join(str(x) for x in head) + ";" + payload + tail
                check_line(ctx, schemas[version], version, line)
    # 3. seeded random
    n_random = ctx.pick(20000, 4000000) // ctx.shard_count
    for _ in range(n_random):
        version = rng.choice(VERSIONS)
        head = gens.random_wellformed(rng)
        payload = gens.random_payload(rng)
        check_message(ctx, schemas[version], version, (*head, payload))
        if rng.random() < 0.2:
            check_typed(ctx, schemas[version], version, (*head, payload), rng.randrange(4))
        if rng.random() < 0.3:
            line = ";".join(str(x) for x in head) + ";" + payload + rng.choice(gens.NONPLAIN_TAILS)
            check_line(ctx, schemas[version], version, line)
    # 4. gateway level (pass-through subset)
    n_gateway = ctx.pick(1500, 60000) // ctx.shard_count
    for i in range(n_gateway):
        version = VERSIONS[i % 5]
        node = rng.choice([1, 2, 9, 254, rng.randint(1, 254)])
        child = rng.choice([0, 1, 254, rng.randint(0, 254)])
        mtype = rng.choice([0, 2, 49, -5, 10**30, rng.randint(0, 60)])
        payload = payloads[i % len(payloads)] if i < 3 * len(payloads) else gens.random_payload(rng)
        arun(gateway_level(ctx, version, (node, child, 1, rng.randint(0, 1), mtype, payload)))


def run(ctx) -> None:
    with Reach(ANCHORS) as reach:
        run_workload(ctx)
    reach.into(ctx)
    for clause in ("encoded-form", "roundtrip-fields", "line-reencode", "gateway-listen-yield", "gateway-send-line"):
        ctx.require(clause, 10)
