"""C03 - the receive path raises only library errors, whatever arrives on the wire.

Monitor: exception class observed at Gateway.listen().__anext__() and StreamTransport.read();
anything that is not an AIOMySensorsError is a violation (classified by exception class and
raising frame).  After every error a well-formed probe line is fed and must be processed
exactly as the reference model says (gateway still usable).
"""

from __future__ import annotations

import asyncio
import itertools

from .. import codedict, gens, histories, spec
from ..harness import VERSIONS, Stepper, exc_info, is_library_error, new_gateway
from ..harness import run as arun
from ..lscheck import execute, shrink
from ..reach import Reach

LEVEL = "exploration"
SHARDS = {"quick": 8, "thorough": 16}
RULE = ("all single-step combinations controller state (version unknown/1.4/1.5/2.0/2.1/2.2 x node absent/present/present "
        "with child x sleeping or not) x message (every internal type -1..40, 99, 10^20; stream types; presentation/set/"
        "req) x payload pool (numbers incl. nan/inf/1e400/5000 digits, version-like strings, garbage), each followed by "
        "a well-formed probe line; seeded random histories with malformed lines (C02 mutations); byte level: random byte "
        "strings, invalid UTF-8, over-long lines and EOF mid-line fed through a real asyncio.StreamReader attached to a "
        "TCPTransport under a real Gateway, and topic/payload garbage through the MQTT receive hooks; distinct = "
        "distinct case; non-trivial = the case produced at least one error outcome")
ASSUMES = ["harness-made ScriptEnd/cancellation are excluded", "recovery after a transport-level error (EOF, over-long "
           "line) is not demanded, only after message-level errors and undecodable lines"]
ANCHORS = ["aiomysensors.gateway:Gateway.listen", "aiomysensors.transport:StreamTransport.read",
           "aiomysensors.model.protocol.protocol_14:IncomingMessageHandler.handle_internal",
           "aiomysensors.model.protocol.protocol_14:IncomingMessageHandler.handle_i_battery_level",
           "aiomysensors.model.protocol.protocol_14:IncomingMessageHandler.handle_i_version",
           "aiomysensors.model.protocol.protocol_20:IncomingMessageHandler.handle_i_heartbeat_response"]

PAYLOADS = ["", "abc", "nan", "inf", "-inf", "1e400", "-3.5", "150", "55", "9" * 5000, "1.5", "2.x", "2.2-beta", "1_0",
            " 7", "٣", "0x10", "\x00", "a;b", "😀", "2.2.0", "-1", "first line\rsecond line", "a\x0bb", "l1\u2028l2",
            "a\x85b", "\rlead", "7\r7"]
PROBE = "1;0;1;0;0;probe\n"


def state_prefix(node_state: str, sleeping: bool) -> list[list]:
    if node_state == "absent":
        return []
    children = {"0": [6, "t", {}]} if node_state == "child" else {}
    return [["restore", 1, {"type": 17, "version": "2.0", "sleeping": sleeping, "children": children}]]


def single_step_cases(ctx):
    count = 0
    types = [*range(-1, 41), 99, 10**20]
    messages = [f"1;255;3;0;{t};{{}}" for t in types] + [f"0;255;3;0;{t};{{}}" for t in (0, 2, 22, 32)] + \
               [f"1;255;4;0;{t};{{}}" for t in (-1, 0, 5, 6, 99)] + \
               ["1;255;0;0;17;{}", "0;255;0;0;18;{}", "1;0;0;0;6;{}", "1;0;1;0;0;{}", "1;0;2;0;0;{}", "1;3;1;0;0;{}",
                "9;0;1;0;0;{}", "255;255;3;0;3;{}"]
    payloads = PAYLOADS if not ctx.quick else PAYLOADS[:10] + PAYLOADS[-6:]
    for version, node_state, sleeping in itertools.product([None, *VERSIONS], ("absent", "present", "child"),
                                                            (False, True)):
        if node_state == "absent" and sleeping:
            continue
        for message in messages:
            if not ctx.mine():
                continue
            steps = state_prefix(node_state, sleeping)
            for payload in payloads:
                steps.append(["rx", message.format(payload) + "\n"])
                steps.append(["rx", PROBE])
            count += len(payloads)
            yield {"version": version, "steps": steps}
    ctx.exhaustive["single-step-state-x-message-x-payload"] = count


from ..harness import unknown_options  # noqa: E402


def random_cases(ctx):
    from .c02 import mutate

    # every number spelling (digit-count ladder, exponents, digit-like characters) in every internal type, on known nodes
    from .. import spec as _spec

    for version in [None, *VERSIONS]:
        proto = _spec.pmap(version) or "1.4"
        for t in range(0, _spec.INTERNAL_MAX[proto] + 1):
            if ctx.mine():
                steps = state_prefix("child", False) + [["restore", 0, {"type": 18, "version": "2.0", "children": {}}]]
                for payload in gens.NUMBER_PAYLOADS:
                    if ";" in payload:
                        continue
                    steps.append(["rx", f"{1 if t != 2 else 0};255;3;0;{t};{payload}\n"])
                steps.append(["rx", PROBE])
                yield {"version": version, "steps": steps}
    options = unknown_options()
    ctx.obs("unknown-config-options", len(options))
    for index, extra in enumerate(options):
        for version in [None, *VERSIONS]:
            for steps in (histories.presentation_type_sweep([*range(0, 40), 99, -1, -5]),
                          histories.type_table_sweep([0, 6, 13, 38, 39], list(range(0, 57))),
                          histories.rich_history(ctx.rng, version, 150), histories.wide_unknown_nodes(17)):
                if ctx.mine():
                    mixed = list(steps)
                    if version != "1.4":
                        mixed.insert(len(mixed) // 2, ["rx", "0;255;3;0;2;1.4.1\n"])  # the gateway reports an older version
                    mixed += [["rx", "1;9;0;0;99;odd child type\n"], ["rx", "1;9;1;0;2;1\n"], ["rx", "1;9;2;0;2;\n"],
                              ["rx", "1;8;0;0;-5;negative child type\n"], ["rx", "1;8;1;0;0;1\n"], ["rx", "1;8;2;0;0;\n"]]
                    yield {"version": version, "steps": mixed, "config_extra": extra}

    for version in [None, *VERSIONS]:
        for steps in (histories.wide_unknown_nodes(ctx.pick(40, 250)), histories.wide_unknown_nodes(17),
                      histories.presentation_type_sweep([*range(0, 40), 99, -1]),
                      histories.type_table_sweep(list(range(0, 40, 5)), list(range(0, 57)))):
            if ctx.mine():
                yield {"version": version, "steps": steps}

    rng = ctx.rng
    for i in range(ctx.pick(300, 20000) // ctx.shard_count):
        version = [None, *VERSIONS][i % 6]
        yield histories.with_reply_faults(rng, {"version": version,
                                                "steps": histories.rich_history(rng, version, rng.choice([20, 60, 150]))})
    for i in range(ctx.pick(400, 100000) // ctx.shard_count):
        version = [None, *VERSIONS][i % 6]
        gen = histories.HistoryGen(rng, version)
        steps = []
        for _ in range(rng.choice([10, 40, 100])):
            line = gen.rx_line()
            roll = rng.random()
            if roll < 0.3:
                line = mutate(rng, line)
            elif roll < 0.4:
                head, _, _ = line.rpartition(";")
                line = head + ";" + rng.choice(gens.NUMBER_PAYLOADS + gens.VERSION_PAYLOADS)
            steps.append(["rx", line + "\n"])
            if rng.random() < 0.2:
                steps.append(["rx", PROBE])
        yield {"version": version, "steps": steps}


def run_history_cases(ctx, cases) -> None:
    seen: set[str] = set()
    for case in cases:
        mismatches, ls = execute(case)
        errors = sum(1 for t in ls.trace if t["outcome"] == "error")
        ctx.case((case.get("version"), tuple(map(repr, case["steps"]))), nontrivial=errors > 0,
                 sample=dict(case, steps=case["steps"][:8]))
        ctx.clause("listen-exception-class", len(ls.trace))
        ctx.obs("error-outcomes", errors)
        for m in mismatches:
            step_op = case["steps"][m.step] if m.step < len(case["steps"]) else None
            after_error = m.step > 0 and any(
                t["outcome"] == "error" for t in ls.trace[max(0, m.step - 3):m.step])
            if m.prop == "C03":
                key = m.key
            elif step_op == ["rx", PROBE] and after_error and m.prop in ("C04", "C02", "C05"):
                key = "probe-not-processed-normally-after-error"
            else:
                ctx.obs(f"other-property-mismatch:{m.prop}:{m.key}")
                continue
            witness = case
            if key not in seen and m.prop == "C03":
                seen.add(key)
                witness = shrink(case, "C03", m.key)
            ctx.violation(key, f"step {m.step}: {m.what}", witness)
        probes = sum(1 for i, op in enumerate(case["steps"]) if op == ["rx", PROBE] and i > 0)
        ctx.clause("probe-after-step", probes)


# ------------------------------------------------------------------------------------------
async def byte_case(ctx, version: str | None, chunks: list[bytes], eof: bool, via_tcp: bool = False) -> None:
    """Bytes -> real StreamReader -> TCPTransport.read -> Gateway.listen."""
    from aiomysensors.gateway import Gateway
    from aiomysensors.transport.tcp import TCPTransport

    case = {"kind": "bytes", "version": version, "chunks": [c.hex() for c in chunks], "eof": eof, "via_tcp": via_tcp}
    transport = TCPTransport("127.0.0.1", 1)
    reader = asyncio.StreamReader(limit=2**16)
    server = None
    if via_tcp or not (hasattr(transport, "reader") and hasattr(transport, "writer")):
        # no public reader/writer seam (or asked to): go through a real loopback connection instead
        async def handler(_r, w) -> None:
            for chunk in chunks:
                w.write(chunk)
            if not eof:
                w.write(b"1;255;0;0;17;2.0\n1;0;0;0;6;t\n" + PROBE.encode())
            await w.drain()
            if eof == "reset":
                # the connection fails (RST) after the bytes - also in the middle of an unterminated, over-long line
                import socket as _socket
                import struct as _struct

                await asyncio.sleep(0.05)
                w.get_extra_info("socket").setsockopt(_socket.SOL_SOCKET, _socket.SO_LINGER, _struct.pack("ii", 1, 0))
                w.transport.abort()
                return
            w.write_eof()
            await _r.read()
            w.close()

        server = await asyncio.start_server(handler, "127.0.0.1", 0)
        transport = TCPTransport("127.0.0.1", server.sockets[0].getsockname()[1])
        await transport.connect()
        ctx.obs("byte-case-via-loopback")
    else:
        transport.reader = reader
    gateway = Gateway(transport)
    if version is not None:
        gateway.protocol_version = version

    class NullWriter:
        def write(self, data: bytes) -> None:
            pass

        async def drain(self) -> None:
            pass

        def close(self) -> None:
            pass

        async def wait_closed(self) -> None:
            pass

    if server is None:
        transport.writer = NullWriter()  # reactions (version queries ...) must not fail for lack of a peer
        for chunk in chunks:
            reader.feed_data(chunk)
        if eof == "reset":
            reader.set_exception(ConnectionResetError(104, "Connection reset by peer"))
        elif eof:
            reader.feed_eof()
        else:
            reader.feed_data(b"1;255;0;0;17;2.0\n1;0;0;0;6;t\n" + PROBE.encode())
            reader.feed_eof()
    errors = 0
    yields = 0
    last_yield = None
    stalled = 0
    for _ in range(len(b"".join(chunks).split(b"\n")) + 8):
        iterator = gateway.listen()
        try:
            message = await asyncio.wait_for(iterator.__anext__(), 5)
            yields += 1
            last_yield = message
        except asyncio.TimeoutError:
            ctx.obs("byte-case-timeout")
            break
        except Exception as exc:  # noqa: BLE001
            errors += 1
            ctx.clause("byte-level-exception-class")
            if not is_library_error(exc):
                info = exc_info(exc)
                key = "stream-undecodable-bytes" if isinstance(exc, UnicodeDecodeError) else \
                    "foreign-exception-" + info["class"]
                ctx.violation(key, f"{info['class']}({exc!s:.80}) from listen() over a stream transport, raised in "
                                   f"{info.get('raised_in')}", case)
                break
            from aiomysensors.exceptions import TransportError

            if isinstance(exc, TransportError):
                active_reader = getattr(transport, "reader", None) or reader
                if active_reader.at_eof() or active_reader.exception() is not None or "LimitOverrun" in repr(exc.__cause__):
                    stalled += 1
                    if stalled > 2:
                        break
        finally:
            await iterator.aclose()
    if server is not None:
        try:
            await transport.disconnect()
        except Exception:  # noqa: BLE001  C17 judges disconnect
            pass
        server.close()
        await server.wait_closed()
    ctx.case(("bytes", version, tuple(chunks), eof, via_tcp), nontrivial=errors > 0, sample=case)
    ctx.obs("byte-level-yields", yields)
    if not eof and stalled == 0:
        ctx.clause("byte-level-probe")
        if last_yield is None or last_yield.payload != "probe":
            ctx.violation("probe-not-processed-normally-after-error",
                          f"after the byte garbage the well-formed probe line was not yielded (last yield {last_yield!r})",
                          case)


async def tcp_gateway_case(ctx, version: str, lines: list[str], sends: list[tuple[int, list]]) -> None:
    """A real Gateway on a real TCPTransport (loopback): reactions are really encoded and written to the peer,
    so failures of the WRITE side of the receive path (reply echoing wire-supplied text) surface here."""
    from aiomysensors.gateway import Gateway
    from aiomysensors.model.message import Message
    from aiomysensors.transport.tcp import TCPTransport

    case = {"kind": "tcp-gateway", "version": version, "lines": lines, "sends": [[i, f] for i, f in sends]}
    go = asyncio.Event()

    async def handler(reader, writer) -> None:
        try:
            for line in lines:
                writer.write(line.encode("utf-8"))
                await writer.drain()
                go.clear()
                try:
                    await asyncio.wait_for(go.wait(), 5)
                except asyncio.TimeoutError:
                    break
            writer.write_eof()
            await reader.read()
        except OSError:
            pass
        finally:
            writer.close()

    server = await asyncio.start_server(handler, "127.0.0.1", 0)
    transport = TCPTransport("127.0.0.1", server.sockets[0].getsockname()[1])
    gateway = Gateway(transport)
    gateway.protocol_version = version
    errors = 0
    try:
        await transport.connect()
        for index, _line in enumerate(lines):
            for at, fields in sends:
                if at == index:
                    try:
                        await gateway.send(Message(*fields))
                    except Exception as exc:  # noqa: BLE001
                        if not is_library_error(exc):
                            ctx.violation("send-foreign-exception-" + type(exc).__name__,
                                          f"send({fields}) over TCP raised {type(exc).__name__}: {exc!s:.80}", case)
            iterator = gateway.listen()
            try:
                await asyncio.wait_for(iterator.__anext__(), 5)
            except asyncio.TimeoutError:
                ctx.obs("tcp-gateway-timeout")
                break
            except Exception as exc:  # noqa: BLE001
                errors += 1
                if not is_library_error(exc):
                    info = exc_info(exc)
                    ctx.violation("foreign-exception-" + info["class"],
                                  f"listen() over a real TCP transport raised {info['class']}({exc!s:.80}) in "
                                  f"{info.get('raised_in')} while handling {lines[index]!r:.60}", case)
                    break
            finally:
                await iterator.aclose()
                go.set()
            ctx.clause("tcp-gateway-step")
    finally:
        try:
            await transport.disconnect()
        except Exception:  # noqa: BLE001
            pass
        server.close()
        await server.wait_closed()
    ctx.case(("tcp-gateway", version, tuple(lines), repr(sends)), nontrivial=True, sample=case)


def random_bytes(rng, n: int) -> bytes:
    roll = rng.random()
    if roll < 0.3:
        return bytes(rng.randrange(256) for _ in range(n))
    if roll < 0.6:
        line = ";".join(str(rng.choice([0, 1, 255, 3, 2, 22])) for _ in range(5)).encode() + b";" + \
            bytes(rng.choice([0x41, 0xFF, 0xFE, 0xC3, 0x28, 0x80, 0x3B, 0xE2, 0x82, 0x0D]) for _ in range(rng.randint(0, 6)))
        return line
    return rng.choice([b"\xff\xfe", b"\xc3\x28", b"\xe2\x82", b"\xf0\x9f\x98", b"\x80abc", b"1;2;1;0;0;\xff", b"",
                       b"\x00\x00", b"1;255;3;0;2;\xc0\xaf", "1;0;1;0;0;日本".encode(), "1;0;1;0;0;😀".encode()[:-1]])


async def mqtt_case(ctx, version: str | None, items: list[tuple[str, str]]) -> None:
    """Garbage topics/payloads through the documented MQTT receive hooks into a real Gateway."""
    from aiomysensors.gateway import Gateway
    from aiomysensors.transport.mqtt import MQTTTransport

    class Hooked(MQTTTransport):
        async def _connect(self) -> None: ...
        async def _disconnect(self) -> None: ...
        async def _publish(self, topic: str, payload: str, qos: int) -> None: ...
        async def _subscribe(self, topic: str, qos: int) -> None: ...

    case = {"kind": "mqtt", "version": version, "items": items}
    transport = Hooked(in_prefix="in", out_prefix="out")
    gateway = Gateway(transport)
    if version is not None:
        gateway.protocol_version = version
    for topic, payload in items:
        transport._receive(topic, payload)  # noqa: SLF001  documented extension hook
    errors = 0
    for _ in items:
        iterator = gateway.listen()
        try:
            await asyncio.wait_for(iterator.__anext__(), 5)
        except Exception as exc:  # noqa: BLE001
            errors += 1
            ctx.clause("mqtt-level-exception-class")
            if not is_library_error(exc):
                info = exc_info(exc)
                ctx.violation("foreign-exception-" + info["class"],
                              f"{info['class']}({exc!s:.80}) from listen() over the MQTT receive hook", case)
        finally:
            await iterator.aclose()
    ctx.case(("mqtt", version, tuple(items)), nontrivial=errors > 0, sample=case)


STEP_TRIGGERS = {
    # what is pending when the step is interrupted / slow: (lines fed before, the line whose step writes, probe afterwards)
    "flush": (["tx-parked"], "1;255;3;0;{wake};1\n"),
    "config-reply": ([], "1;255;3;0;6;\n"),
    "time-reply": ([], "1;255;3;0;1;\n"),
    "id-response": ([], "255;255;3;0;3;\n"),
    "value-reply": ([], "1;0;2;0;2;\n"),
    "presentation-request": ([], "9;0;1;0;0;1\n"),
    "version-query": (["version-unknown"], "1;0;1;0;2;5\n"),
}
PROBE_LINES = ["1;0;1;0;2;after\n", "1;255;3;0;{wake};2\n", "1;255;3;0;6;\n", "1;255;3;0;{wake};3\n", "junk\n", "1;0;2;0;2;\n"]


async def _prepare_step(version: str, trigger: str):
    from aiomysensors.model.message import Message
    from aiomysensors.model.node import Child, Node

    before, line = STEP_TRIGGERS[trigger]
    gateway, transport = new_gateway(None if "version-unknown" in before else version)
    gateway.nodes[1] = Node(1, 17, "2.0", children={0: Child(0, 3, values={2: "stored"}), 1: Child(1, 3)},
                            sleeping="tx-parked" in before)
    if "tx-parked" in before:
        await gateway.send(Message(1, 0, 1, 0, 2, "parked-a"))
        await gateway.send(Message(1, 1, 1, 1, 3, "parked-b"))
    wake = 32 if gateway.protocol.VERSION == "2.2" else 22
    transport.take_writes()
    return gateway, transport, line.format(wake=wake), wake


async def _probe(ctx, gateway, transport, wake: int, case: dict, what: str) -> None:
    """After the disturbance the gateway must be usable: fresh listen(), a few well-formed lines and one malformed."""
    stepper = Stepper(gateway, transport)
    for probe in PROBE_LINES:
        kind, value = await stepper.rx(probe.format(wake=wake))
        ctx.clause("probe-after-disturbed-step")
        if kind == "error" and not is_library_error(value):
            info = exc_info(value)
            ctx.violation("foreign-exception-" + info["class"], f"{what}: afterwards {probe.format(wake=wake)!r} raised "
                                                                f"{info['class']}({value!s:.80}) in {info.get('raised_in')}", case)
            break
        if probe.startswith("1;0;1;0;2;after") and kind != "yield":
            ctx.violation("gateway-unusable-after-error", f"{what}: afterwards the well-formed set {probe!r} was not processed "
                                                          f"({type(value).__name__})", case)
    await stepper.close()


async def interrupted_step_case(ctx, version: str, trigger: str, how: str, outcome: str) -> None:
    """The application stops waiting for the next message (task.cancel() or a wait_for timeout around anext(listen())) while
    the controller is inside a step with a write pending.  The pending write then completes / fails / stays cancelled.
    Listening again must work: only library errors, and well-formed lines are processed."""
    case = {"kind": "interrupted-step", "version": version, "trigger": trigger, "how": how, "outcome": outcome}
    gateway, transport, line, wake = await _prepare_step(version, trigger)
    transport.gate = True
    transport.lines.append(line)
    iterator = gateway.listen()
    task = asyncio.ensure_future(iterator.__anext__())
    for _ in range(60):
        await asyncio.sleep(0)
        if transport.pending or task.done():
            break
    ctx.case(("interrupted-step", version, trigger, how, outcome), sample=case)
    if not transport.pending:
        ctx.obs("interrupted-step:no-write-pending:" + trigger)
    task.cancel()
    try:
        await task
    except asyncio.CancelledError:
        ctx.clause("step-interrupted-with-write-pending") if transport.pending else None
    except Exception as exc:  # noqa: BLE001
        if not is_library_error(exc):
            ctx.violation("foreign-exception-" + type(exc).__name__, f"interrupted step ({trigger}) raised {type(exc).__name__}", case)
    for future, _line, _attempt in list(transport.pending):
        if not future.done():
            future.set_result(outcome == "fails")
    transport.pending.clear()
    transport.gate = False
    try:
        await iterator.aclose()
    except Exception as exc:  # noqa: BLE001
        if not is_library_error(exc):
            ctx.violation("foreign-exception-" + type(exc).__name__, f"closing the interrupted listen() raised {type(exc).__name__}", case)
    await asyncio.sleep(0)
    await _probe(ctx, gateway, transport, wake, case, f"listen step interrupted by {how} while the {trigger} write was pending")


def slow_reply_case(ctx, version: str, trigger: str, seconds: float) -> None:
    """A write the controller makes while handling a line stays pending for a long (virtual) time - the peer is not reading,
    the serial line is stuck - and then completes.  Asking for the next message still ends in a message or a library error."""
    from ..vloop import LogicalDeadlock, run_virtual

    case = {"kind": "slow-reply", "version": version, "trigger": trigger, "seconds": seconds}
    box: dict = {}

    async def scenario() -> None:
        gateway, transport, line, wake = await _prepare_step(version, trigger)
        transport.gate = True
        transport.lines.append(line)
        iterator = gateway.listen()
        task = asyncio.ensure_future(iterator.__anext__())
        waited = 0.0
        while waited < seconds and not task.done():
            step = min(seconds - waited, max(1.0, seconds / 50))
            await asyncio.sleep(step)
            waited += step
        box["pending_after_wait"] = len(transport.pending)
        while not task.done():
            for future, _line, _attempt in list(transport.pending):
                if not future.done():
                    future.set_result(False)
            transport.pending.clear()
            await asyncio.sleep(0)
        try:
            box["result"] = ("yield", await task)
        except Exception as exc:  # noqa: BLE001
            box["result"] = ("error", exc)
        transport.gate = False
        try:
            await iterator.aclose()
        except Exception:  # noqa: BLE001
            pass
        await _probe(ctx, gateway, transport, wake, case, f"{trigger} write pending for {seconds} virtual seconds")

    result, _loop = run_virtual(scenario)
    ctx.case(("slow-reply", version, trigger, seconds), sample=case)
    if isinstance(result, LogicalDeadlock):
        ctx.violation("listen-deadlock", f"logical deadlock in {case}", case)
        return
    if isinstance(result, BaseException):
        from ..harness import scenario_exception

        scenario_exception(ctx, result, case, "slow-reply")
        return
    ctx.clause("slow-write-step")
    kind, value = box["result"]
    if kind == "error" and not is_library_error(value):
        info = exc_info(value)
        ctx.violation("foreign-exception-" + info["class"], f"the {trigger} write stayed pending for {seconds} virtual seconds: "
                                                            f"listen raised {info['class']}({value!s:.60}) in {info.get('raised_in')}",
                      case)


def mutation_during_pending_write_case(ctx, version: str, trigger: str, mutation: str) -> None:
    """While a write the controller makes for a received line is pending, the APPLICATION changes the registry (deletes the
    node concerned, re-binds gateway.nodes, clears the node's children); then the write completes.  The step still ends in
    a message or a library error, and the gateway stays usable."""
    from ..vloop import LogicalDeadlock, run_virtual

    case = {"kind": "mutation-during-write", "version": version, "trigger": trigger, "mutation": mutation}
    box: dict = {}

    async def scenario() -> None:
        gateway, transport, line, wake = await _prepare_step(version, trigger)
        transport.gate = True
        transport.lines.append(line)
        iterator = gateway.listen()
        task = asyncio.ensure_future(iterator.__anext__())
        for _ in range(60):
            await asyncio.sleep(0)
            if transport.pending or task.done():
                break
        box["pending"] = len(transport.pending)
        if mutation == "delete-node":
            gateway.nodes.pop(1, None)
        elif mutation == "rebind-nodes":
            gateway.nodes = {}
        elif mutation == "clear-children":
            if 1 in gateway.nodes:
                gateway.nodes[1].children.clear()
        while not task.done():
            for future, _line, _attempt in list(transport.pending):
                if not future.done():
                    future.set_result(False)
            transport.pending.clear()
            await asyncio.sleep(0)
        try:
            box["result"] = ("yield", await task)
        except Exception as exc:  # noqa: BLE001
            box["result"] = ("error", exc)
        transport.gate = False
        try:
            await iterator.aclose()
        except Exception:  # noqa: BLE001
            pass
        from aiomysensors.model.node import Child, Node

        gateway.nodes[1] = Node(1, 17, "2.0", children={0: Child(0, 3, values={2: "stored"}), 1: Child(1, 3)})
        await _probe(ctx, gateway, transport, wake, case, f"registry changed ({mutation}) while the {trigger} write was pending")

    result, _loop = run_virtual(scenario)
    ctx.case(("mutation-during-write", version, trigger, mutation), sample=case)
    if isinstance(result, LogicalDeadlock):
        ctx.violation("listen-deadlock", f"logical deadlock in {case}", case)
        return
    if isinstance(result, BaseException):
        from ..harness import scenario_exception

        scenario_exception(ctx, result, case, "mutation-during-write")
        return
    if not box.get("pending"):
        ctx.obs("mutation-during-write:no-write-pending:" + trigger)
    ctx.clause("registry-changed-while-a-write-is-pending")
    kind, value = box["result"]
    if kind == "error" and not is_library_error(value):
        info = exc_info(value)
        ctx.violation("foreign-exception-" + info["class"], f"the application changed the registry ({mutation}) while the {trigger} "
                                                            f"write was pending: listen raised {info['class']}({value!s:.60}) in "
                                                            f"{info.get('raised_in')}", case)


async def run_of_lines_case(ctx, version: str | None, line: str, count: int, extra: dict) -> None:
    """`count` identical lines of a kind that yields nothing (blank, log, garbage, unsupported) are ALREADY waiting when the
    application asks for the next message - a gateway that floods, a reconnect after hours - then a node presents itself and
    the probe arrives: only library errors, and the probe is yielded."""
    from ..harness import ScriptEnd, exc_info, is_library_error, new_gateway

    case = {"kind": "run-of-lines", "version": version, "line": line, "count": count, "config_extra": extra}
    gateway, transport = new_gateway(version)
    transport.lines.extend([line] * count + ["1;255;0;0;17;2.0\n", "1;0;0;0;6;t\n", PROBE])
    seen_probe = False
    errors = 0
    for _ in range(count + 8):
        iterator = gateway.listen()
        try:
            message = await iterator.__anext__()
            if getattr(message, "payload", None) == "probe":
                seen_probe = True
                break
        except ScriptEnd:
            break
        except Exception as exc:  # noqa: BLE001
            errors += 1
            if not is_library_error(exc):
                info = exc_info(exc)
                ctx.violation("foreign-exception-" + info["class"], f"{count} x {line!r} waiting, then listen() raised "
                                                                    f"{info['class']}({exc!s:.60}) in {info.get('raised_in')}", case)
                return
        finally:
            await iterator.aclose()
    ctx.case(("run-of-lines", version, line, count, repr(sorted(extra.items()))), nontrivial=True, sample=case)
    ctx.clause("run-of-identical-lines")
    if not seen_probe:
        ctx.violation("probe-not-processed-normally-after-error", f"after {count} x {line!r} the presentation and the probe line "
                                                                  f"were not yielded ({errors} errors on the way)", case)


def concurrent_cases(ctx) -> None:
    """Listener flushing a sleep buffer while application tasks call send(): every interleaving at the
    Transport.write suspension points (Director, vf.sched) - the exception class escaping listen()."""
    from ..sched import explore, run_schedule

    k1, k2, k3, kb = [1, 0, 2], [1, 0, 3], [1, 1, 2], [2, 0, 2]
    configs = []
    for version in ("2.0", "2.2"):
        for parked in ([k1], [k1, k2], [k1, kb]):
            for senders in ([[[*k1, True]]], [[[*k3, True]]], [[[*k3, True]], [[*kb, True]]],
                            [[[*k2, True]], [[*k3, True]]], [[[3, 0, 2, False]], [[*k3, True]]]):
                configs.append({"version": version, "parked": parked, "senders": senders, "wakes": [1, 2],
                                "awake": [3]})
    for config in configs:
        if not ctx.mine():
            continue
        for _prefix, outcome in explore(config, lambda c, p: arun(run_schedule(c, p)), limit=ctx.pick(300, 5000)):
            case = {"kind": "schedule", "config": config, "choices": outcome.choices}
            ctx.case(("sched", repr(config), tuple(outcome.choices)), nontrivial=len(outcome.choices) > 2)
            ctx.clause("listen-exception-class-concurrent")
            for err in outcome.listener_errors:
                if not err["library"]:
                    ctx.violation("concurrent-send-foreign-exception-" + err["class"],
                                  f"schedule {' '.join(outcome.labels)}: listen raised {err['class']}: {err.get('text')} "
                                  f"in {err.get('raised_in')}", case)


def run_case(ctx, case: dict) -> None:
    kind = case.get("kind")
    if kind == "schedule":
        from ..sched import run_schedule

        outcome = arun(run_schedule(case["config"], case["choices"]))
        for err in outcome.listener_errors:
            if not err["library"]:
                ctx.violation("concurrent-send-foreign-exception-" + err["class"], f"listen raised {err}", case)
        ctx.case(("sched", repr(case["config"]), tuple(case["choices"])))
        return
    if kind == "mutation-during-write":
        mutation_during_pending_write_case(ctx, case["version"], case["trigger"], case["mutation"])
    elif kind == "interrupted-step":
        arun(interrupted_step_case(ctx, case["version"], case["trigger"], case["how"], case["outcome"]))
    elif kind == "slow-reply":
        slow_reply_case(ctx, case["version"], case["trigger"], case["seconds"])
    elif kind == "bytes":
        arun(byte_case(ctx, case["version"], [bytes.fromhex(c) for c in case["chunks"]], case["eof"],
                       case.get("via_tcp", False)))
    elif kind == "run-of-lines":
        from .. import harness as _h

        with _h.options(case.get("config_extra")):
            arun(run_of_lines_case(ctx, case["version"], case["line"], case["count"], case.get("config_extra") or {}))
    elif kind == "tcp-gateway":
        arun(tcp_gateway_case(ctx, case["version"], case["lines"], [(i, f) for i, f in case["sends"]]))
    elif kind == "mqtt":
        arun(mqtt_case(ctx, case["version"], [tuple(i) for i in case["items"]]))
    else:
        run_history_cases(ctx, [case])


def run(ctx) -> None:
    rng = ctx.rng
    with Reach(ANCHORS) as reach:
        run_history_cases(ctx, single_step_cases(ctx))
        run_history_cases(ctx, random_cases(ctx))
        concurrent_cases(ctx)
        index = 0
        for version in ("1.4", "2.0", "2.1", "2.2"):
            for trigger in STEP_TRIGGERS:
                if trigger in ("flush", "presentation-request") and not version.startswith("2"):
                    continue
                for how, outcome in (("cancel", "completes"), ("cancel", "fails"), ("timeout", "completes")):
                    index += 1
                    if ctx.mine(index):
                        arun(interrupted_step_case(ctx, version, trigger, how, outcome))
                for seconds in codedict.durations():
                    index += 1
                    if ctx.mine(index):
                        slow_reply_case(ctx, version, trigger, seconds)
        for version in ("1.5", "2.0", "2.2"):
            for trigger in STEP_TRIGGERS:
                if trigger in ("flush", "presentation-request") and not version.startswith("2"):
                    continue
                for mutation in ("delete-node", "rebind-nodes", "clear-children"):
                    index += 1
                    if ctx.mine(index):
                        mutation_during_pending_write_case(ctx, version, trigger, mutation)
        from .. import harness as _harness

        for extra in _harness.unknown_options():
            _harness.CONFIG_EXTRA.clear()
            _harness.CONFIG_EXTRA.update(extra)
            try:
                for version in ("1.5", "2.1"):
                    for trigger in STEP_TRIGGERS:
                        if trigger in ("flush", "presentation-request") and not version.startswith("2"):
                            continue
                        index += 1
                        if ctx.mine(index):
                            for seconds in (4, 31, 301, 3601):
                                slow_reply_case(ctx, version, trigger, seconds)
                            arun(interrupted_step_case(ctx, version, trigger, "cancel", "completes"))
            finally:
                _harness.CONFIG_EXTRA.clear()
        from .. import codedict as _codedict

        counts = sorted(_codedict.thresholds([1100, ctx.pick(3500, 12000)], low=50, cap=ctx.pick(5000, 20000)))
        index = 0
        for extra in [{}, *_harness.unknown_options()]:
            for line in ("\n", "\r\n", " \n", "0;255;3;0;9;log text\n", "garbage\n", "1;255;3;0;99;x\n", "\x00\n"):
                for count in counts:
                    index += 1
                    if ctx.mine(index):
                        with _harness.options(extra):
                            arun(run_of_lines_case(ctx, [None, *VERSIONS][index % 6], line, count, extra))
        texts = ["Grüße 21.5°C", "日本語", "😀", "a;b", " x ", "plain", "\x00", "ß" * 300]
        for i in range(ctx.pick(40, 800) // ctx.shard_count + 1):
            version = VERSIONS[i % 5]
            wake = 32 if version == "2.2" else 22
            text = texts[i % len(texts)]
            lines = [f"1;255;0;0;17;{text}\n", f"1;0;0;0;6;{text}\n", f"1;0;1;0;47;{text}\n", "1;0;2;0;47;\n",
                     "1;255;3;0;6;\n", "1;255;3;0;1;\n", f"1;255;3;0;11;{text}\n", "255;255;3;0;3;\n", f"9;0;1;0;0;{text}\n",
                     f"1;255;3;0;{wake};1\n", f"1;255;3;0;{wake};2\n", "1;0;2;0;48;\n"]
            sends = [(10, [1, 0, 1, 0, 48, text]), (4, [1, 0, 1, 1, 2, text])]
            arun(tcp_gateway_case(ctx, version, lines, sends))
        fixed = [[b"\xff\xfe\n"], [b"1;255;3;0;0;\xff\n"], [b"\xc3\x28\n", b"ok\n"], [b"x" * 70000 + b"\n"],
                 [b"1;2;1;0;0;5"], [b"\n\n\n"], [b"\r\n"], [b"1;255;0;0;17;2.0\n", b"\xf0\x9f\n"]]
        for i, chunks in enumerate(fixed):
            for eof in (True, False):
                if ctx.mine():
                    arun(byte_case(ctx, VERSIONS[i % 5], chunks, eof))
        # the connection FAILS (reset, device error) instead of ending - after complete lines, inside a short line, inside an
        # unterminated run longer than the reader's limit: whatever the transport was doing with the bytes, a library error
        resets = [[b"1;2;1;0;0;5\n"], [b"1;2;1;0;0;5"], [b"x" * 70000], [b"1;0;1;0;0;5\n", b"y" * 200000], [b"z" * 65536],
                  [b"w" * 65537], [b"q" * 70000 + b"\n", b"1;2;1"], [b"\xff" * 66000]]
        for i, chunks in enumerate(resets):
            for via_tcp in (False, True):
                if ctx.mine():
                    ctx.clause("stream-fails-instead-of-ending")
                    arun(byte_case(ctx, VERSIONS[i % 5], chunks, "reset", via_tcp))
        for i in range(ctx.pick(300, 40000) // ctx.shard_count):
            lines = [random_bytes(rng, rng.randint(0, 30)).replace(b"\n", b"") + b"\n" for _ in range(rng.randint(1, 6))]
            data = b"".join(lines)
            if rng.random() < 0.3:
                data = data[: rng.randrange(len(data) + 1)]
            cut = sorted(rng.sample(range(len(data) + 1), min(len(data), rng.randint(0, 3))))
            chunks = [data[a:b] for a, b in zip([0, *cut], [*cut, len(data)])]
            arun(byte_case(ctx, [None, *VERSIONS][i % 6], chunks, eof=rng.random() < 0.4, via_tcp=(i % 6 == 5)))
        topics = ["in/1/0/1/0/0", "in/1/0/1/0", "in", "", "a/b/c/d/e/f/g/1/255/3/0/0", "in/x/y/z/w/v", "in/1/255/3/0/2",
                  "in/0/255/3/0/2", "in/1/255/3/0/22", "in//////", "in/1/0/1/0/0/extra", "in/256/0/1/0/0"]
        for i in range(ctx.pick(100, 3000) // ctx.shard_count):
            items = [(rng.choice(topics), rng.choice(PAYLOADS + ["5", "x;y"])) for _ in range(rng.randint(1, 6))]
            arun(mqtt_case(ctx, [None, *VERSIONS][i % 6], items))
    reach.into(ctx)
    for clause in ("listen-exception-class", "probe-after-step", "byte-level-exception-class",
                   "mqtt-level-exception-class", "listen-exception-class-concurrent", "tcp-gateway-step"):
        ctx.require(clause, 20)
