"""C07 - sleep buffer semantics (projection of the lockstep trace, unique payload per send).

Every send carries a unique payload, so every write identifies the send it came from.  The model
parks buffered set commands for nodes known to be sleeping and releases exactly that node's latest
value per (child, type) at its next wake message (heartbeat response in 2.0/2.1, pre-sleep
notification in 2.2); everything else is written immediately and unchanged.
"""

from __future__ import annotations

import itertools

from .. import histories
from ..lscheck import replay_case, run_cases
from ..reach import Reach

LEVEL = "exploration"
SHARDS = {"quick": 8, "thorough": 16}
RULE = ("all sequential interleavings of length <= 4 (thorough <= 6) over {send k1,k2,k3 to A, send to B, unbuffered "
        "send, wake A, wake B, non-wake internal from A, the other version's wake type, re-presentation of A} x versions "
        "2.0/2.1/2.2 x {both nodes initially sleeping, none}; 1.4/1.5 with a sleeping flag restored from persistence; "
        "plus seeded random histories of length 40-200 with 3 nodes, 3 children, 4 value types; every send has a unique "
        "payload; distinct = distinct (version, initial state, steps); non-trivial = at least one send and one receive")
ASSUMES = ["'most recently sent' is read as most recently parked: a value parked before the node re-presented itself "
           "(sleeping flag reset) is still released at the next wake - logged as observation, the statement does not "
           "cover it", "wake = heartbeat response with integer payload (2.0/2.1) / pre-sleep notification (2.2) from a "
           "known node"]
ANCHORS = ["aiomysensors.model.protocol.protocol_14:OutgoingMessageHandler.handle_set",
           "aiomysensors.model.protocol.protocol_20:IncomingMessageHandler._handle_sleep_buffer",
           "aiomysensors.model.protocol.protocol_20:IncomingMessageHandler.handle_i_heartbeat_response",
           "aiomysensors.model.protocol.protocol_22:IncomingMessageHandler.handle_i_pre_sleep_notification"]

A, B = 1, 2


def symbols(version: str) -> list:
    wake = 32 if version == "2.2" else 22
    other = 22 if version == "2.2" else 32
    return [
        ("tx", [A, 0, 1, 0, 2], True), ("tx", [A, 0, 1, 1, 3], True), ("tx", [A, 1, 1, 0, 2], True),
        ("tx", [B, 0, 1, 0, 2], True), ("tx", [A, 0, 1, 0, 2], False),
        ("rx", f"{A};255;3;0;{wake};5\n"), ("rx", f"{B};255;3;0;{wake};5\n"),
        ("rx", f"{A};255;3;0;0;50\n"), ("rx", f"{A};255;3;0;{other};7\n"), ("rx", f"{A};255;0;0;17;2.0\n"),
        ("txi", [A, 255, 3, 0, 18], True),  # the application sends an internal command (heartbeat request) to A
    ]


def build(version: str, sleeping: bool, combo) -> dict:
    steps: list[list] = []
    # the node's presentation type is not part of C07: sleeping repeaters (18), sensors (17), odd types all buffer alike
    node_type = (17, 18, 17, 0, 18, 99)[(len(combo) + sum(len(str(sym[1])) for sym in combo)) % 6]
    for node in (A, B):
        steps.append(["restore", node, {"type": node_type if node == A else 17, "version": "2.0", "sleeping": sleeping,
                                        "children": {"0": [3, "c0", {}], "1": [3, "c1", {}]}}])
    for i, sym in enumerate(combo):
        if sym[0] == "txi":
            steps.append(["tx", [*sym[1], ""], sym[2]])
        elif sym[0] == "tx":
            steps.append(["tx", [*sym[1], f"v{i}"], sym[2]])
        else:
            steps.append(["rx", sym[1]])
    return {"version": version, "steps": steps}


def cases(ctx):
    rng = ctx.rng
    max_len = ctx.pick(4, 6)
    count = 0
    for version in ("2.0", "2.1", "2.2"):
        syms = symbols(version)
        for length in range(1, max_len + 1):
            for combo in itertools.product(syms, repeat=length):
                if not ctx.mine():
                    continue
                # initial state alternates to halve the cost; both states are covered across the enumeration
                for sleeping in ((True, False) if length <= 3 else ((count % 2 == 0),)):
                    count += 1
                    yield build(version, sleeping, combo)
    ctx.exhaustive[f"interleavings-len<={max_len}"] = count
    # 1.x with a restored sleeping flag: "not written when sent" half
    count = 0
    for version in ("1.4", "1.5"):
        syms = symbols("2.0")[:5] + [("rx", f"{A};255;3;0;0;50\n"), ("rx", f"{A};0;1;0;2;9\n")]
        for length in range(1, 4):
            for combo in itertools.product(syms, repeat=length):
                if ctx.mine():
                    count += 1
                    yield build(version, True, combo)
    ctx.exhaustive["1.x-restored-sleeping"] = count
    # parked commands survive a protocol switch, a reconnect and every non-wake internal type
    count = 0
    reports = {"2.0": "2.0.0", "2.1": "2.1.1", "2.2": "2.2.0"}
    for start in (None, "1.4", "1.5", "2.0", "2.1", "2.2"):
        for target, text in reports.items():
            for form in ("0;255;3;0;2;{}\n", "0;255;0;0;18;{}\n"):
                for between in ([], [["reenter"]], [["rx", f"{B};255;3;0;0;9\n"]]):
                    if not ctx.mine():
                        continue
                    count += 1
                    wake = 32 if target == "2.2" else 22
                    steps = [["restore", n, {"type": 17, "version": "2.0", "sleeping": True,
                                             "children": {"0": [3, "c", {}], "1": [3, "c", {}]}}] for n in (A, B)]
                    steps += [["tx", [A, 0, 1, 0, 2, "held1"], True], ["tx", [B, 1, 1, 1, 3, "held2"], True],
                              ["rx", form.format(text)], *between, ["tx", [A, 1, 1, 0, 2, "held3"], True],
                              ["rx", f"{A};255;3;0;{wake};1\n"], ["rx", f"{B};255;3;0;{wake};1\n"]]
                    yield {"version": start, "steps": steps}
    for version in ("2.0", "2.1", "2.2"):
        wake = 32 if version == "2.2" else 22
        from .. import spec as _spec

        for t in range(0, _spec.INTERNAL_MAX[version] + 1):
            if t == wake or t in (2, 3):
                continue
            if not ctx.mine():
                continue
            count += 1
            steps = [["restore", n, {"type": 17, "version": "2.0", "sleeping": True, "children": {"0": [3, "c", {}]}}]
                     for n in (A, B)]
            steps += [["tx", [A, 0, 1, 0, 2, "held1"], True], ["tx", [B, 0, 1, 0, 2, "held2"], True],
                      ["rx", f"{A};255;3;0;{t};1\n"], ["rx", f"{A};255;3;0;{wake};1\n"], ["rx", f"{B};255;3;0;{wake};1\n"]]
            yield {"version": version, "steps": steps}
    ctx.exhaustive["switch-reenter-nonwake-types"] = count
    # commands whose payload equals what the node itself reported / what is already parked (no unique payloads here:
    # the model predicts the exact lines), and incoming set / req / child presentation as non-wake messages
    count = 0
    pool = ["0", "1"]
    for version in ("2.0", "2.1", "2.2"):
        wake = 32 if version == "2.2" else 22
        ops = [["rx", f"{A};0;1;0;2;0\n"], ["rx", f"{A};0;1;0;2;1\n"], ["rx", f"{A};0;2;0;2;\n"], ["rx", f"{A};1;0;0;3;c1\n"],
               ["tx", [A, 0, 1, 0, 2, "0"], True], ["tx", [A, 0, 1, 0, 2, "1"], True], ["tx", [A, 0, 1, 1, 2, "1"], True],
               ["rx", f"{A};255;3;0;{wake};1\n"], ["tx", [B, 0, 1, 0, 2, "1"], True]]
        for length in range(2, 6):
            for combo in itertools.product(ops, repeat=length):
                if not ctx.mine():
                    continue
                if ctx.quick and length == 5 and count % 4:
                    count += 1
                    continue
                count += 1
                steps = [["restore", n, {"type": 17, "version": "2.0", "sleeping": True,
                                         "children": {"0": [3, "c0", {"2": "0"}], "1": [3, "c1", {}]}}] for n in (A, B)]
                steps += [list(op) for op in combo] + [["rx", f"{A};255;3;0;{wake};1\n"], ["rx", f"{B};255;3;0;{wake};1\n"]]
                yield {"version": version, "steps": steps}
    ctx.exhaustive["reported-value-and-incoming-nonwake"] = count
    _ = pool
    # "the most recently sent value": two sends on one key whose payloads are different TEXT for the same number, the same
    # text in another case, with / without blanks ... - the later text is the one that is released (also with ack flipped)
    count = 0
    spellings = [("1.10", "1.1"), ("1.1", "1.10"), ("007", "7"), ("7", "7.0"), ("1e0", "1"), ("+1", "1"), ("0", "-0"),
                 ("000100", "100"), ("on", "ON"), ("On", "on"), ("a", "a "), (" a", "a"), ("1", "1"), ("ff8800", "FF8800"),
                 ("0x10", "16"), ("١", "1"), ("1", "true"), ("", "0"), ("0", "")]
    for version in ("2.0", "2.1", "2.2", "1.5"):
        wake = 32 if version == "2.2" else 22
        for first, second in spellings:
            for ack_pair in ((0, 0), (0, 1)):
                for between in ([], [["rx", f"{A};0;1;0;2;{first}\n"]], [["rx", f"{B};255;3;0;{wake};1\n"]]):
                    if not ctx.mine():
                        continue
                    count += 1
                    steps = [["restore", n, {"type": 17, "version": "2.0", "sleeping": True,
                                             "children": {"0": [3, "c0", {}], "1": [3, "c1", {}]}}] for n in (A, B)]
                    steps += [["tx", [A, 0, 1, ack_pair[0], 2, first], True], *between,
                              ["tx", [A, 0, 1, ack_pair[1], 2, second], True],
                              ["rx", f"{A};255;3;0;{wake};1\n"], ["rx", f"{A};255;3;0;{wake};1\n"]]
                    yield {"version": version, "steps": steps}
    ctx.exhaustive["spelling-pairs"] = count
    # a sleeping node that presents itself again (fresh registry entry, not flagged sleeping) keeps its parked commands until
    # its next wake - also while OTHER nodes' commands push the buffer past round sizes (tables that tidy themselves up)
    count = 0
    for version in ("2.0", "2.1", "2.2"):
        wake = 32 if version == "2.2" else 22
        from .. import codedict

        for size in codedict.thresholds(ctx.pick([256, 1024], [64, 128, 256, 512, 1024, 2048, 5000]), low=8, cap=5001):
            for event in ("re-present", "flag-cleared", "none"):
                if not ctx.mine():
                    continue
                count += 1
                steps = [["restore", n, {"type": 17, "version": "2.0", "sleeping": True,
                                         "children": {"0": [3, "c0", {}], "1": [3, "c1", {}]}}] for n in (A, B)]
                steps += [["tx", [A, 0, 1, 0, 2, "keep-a0"], True], ["tx", [A, 1, 1, 1, 3, "keep-a1"], True]]
                if event == "re-present":
                    steps.append(["rx", f"{A};255;0;0;17;2.1\n"])
                elif event == "flag-cleared":
                    steps.append(["flag", A, "sleeping", False])
                for i in range(size):
                    steps.append(["tx", [B, i % 200, 1, 0, 2 + i // 200, f"b{i}"], True])
                steps += [["rx", f"{A};255;3;0;{wake};1\n"], ["rx", f"{B};255;3;0;{wake};1\n"], ["rx", f"{A};255;3;0;{wake};1\n"]]
                yield {"version": version, "steps": steps}
    ctx.exhaustive["parked-across-re-presentation-x-buffer-size"] = count
    # send-side type tables: a command of EVERY value type parked for a child of every type (sleeping node), in both
    # orders, then the wake releases each of them exactly once (commands of different types never replace each other)
    count = 0
    for version in ("2.0", "2.1", "2.2"):
        wake = 32 if version == "2.2" else 22
        for start in range(0, 40, 4):
            for order in (1, -1):
                if not ctx.mine():
                    continue
                count += 1
                kids = list(range(start, start + 4))
                steps = [["restore", A, {"type": 17, "version": "2.0", "sleeping": True,
                                        "children": {str(ct): [ct, f"type {ct}", {}] for ct in kids}}]]
                for ct in kids:
                    for vt in list(range(0, 57))[::order]:
                        steps.append(["tx", [A, ct, 1, (ct + vt) % 2, vt, f"c{ct}t{vt}"], True])
                steps += [["rx", f"{A};255;3;0;{wake};1\n"], ["rx", f"{A};255;3;0;{wake};1\n"]]
                yield {"version": version, "steps": steps}
    ctx.exhaustive["send-side-type-tables"] = count
    for i in range(ctx.pick(400, 20000) // ctx.shard_count):
        version = ("2.0", "2.1", "2.2", None, "1.5")[i % 5]
        yield histories.with_reply_faults(rng, {"version": version,
                                                "steps": histories.rich_history(rng, version, rng.choice([20, 60, 150]))})
    # random long histories
    for i in range(ctx.pick(300, 8000) // ctx.shard_count):
        version = ("2.0", "2.1", "2.2", "2.2", "1.5")[i % 5]
        gen = histories.HistoryGen(rng, version)
        steps: list[list] = []
        for node in (1, 2, 7):
            gen.known[node] = {0, 1, 254}
            steps.append(["restore", node, {"type": 17, "version": "2.0", "sleeping": rng.random() < 0.6,
                                            "children": {str(c): [3, "c", {}] for c in (0, 1, 254)}}])
        wake = 32 if version == "2.2" else 22
        for _ in range(rng.choice([40, 100, 200])):
            roll = rng.random()
            if roll < 0.02:
                steps.append(["reenter"])
            elif roll < 0.06:
                # a version report that may switch the protocol in force while commands are parked
                new_version = rng.choice(["2.0.0", "2.1.0", "2.2.0", "2.3.2"])
                steps.append(["rx", rng.choice([f"0;255;3;0;2;{new_version}\n", f"0;255;0;0;18;{new_version}\n"])])
                wake = 32 if new_version.startswith(("2.2", "2.3")) else 22
            elif roll < 0.5:
                steps.append(gen.tx_op())
            elif roll < 0.75:
                steps.append(["rx", f"{rng.choice([1, 2, 7])};255;3;0;{wake};{rng.randint(0, 9)}\n"])
            else:
                steps.append(["rx", gen.rx_line() + "\n"])
        yield {"version": version, "steps": steps}


def run_case(ctx, case: dict) -> None:
    if case.get("kind") == "resend-after-release":
        from ..harness import run as arun
        from .c12 import resend_after_release_case

        arun(resend_after_release_case(ctx, case))
        return
    if case.get("kind") == "vanished-child":
        from .. import harness
        from ..harness import run as arun
        from .c12 import vanished_child_case

        with harness.options(case.get("config_extra")):
            arun(vanished_child_case(ctx, case))
        return
    if case.get("kind") == "latest-only":
        from .. import harness
        from ..harness import run as arun

        with harness.options(case.get("config_extra")):
            arun(latest_only_case(ctx, case))
        return
    replay_case(ctx, case)


async def latest_only_case(ctx, case: dict) -> None:
    from aiomysensors.model.message import Message

    from ..harness import Stepper, exc_info, new_gateway

    version, extra = case["version"], case.get("config_extra") or {}
    gateway, transport = new_gateway(version)
    stepper = Stepper(gateway, transport)
    wake = "1;255;3;0;32;500\n" if version == "2.2" else "1;255;3;0;22;1\n"
    lines = [f"1;255;0;0;17;{version}\n", "1;0;0;0;3;relay\n"]
    if case["reported"] is not None:
        lines.append(f"1;0;1;0;2;{case['reported']}\n")
    lines.append(wake)
    for line in lines:
        kind, value = await stepper.rx(line)
        if kind != "yield":
            ctx.inconclusive.append(f"latest-only: set-up line {line!r} was not handled: {kind} {value!r:.80}")
            return
    transport.take_writes()
    for payload in case["payloads"]:
        kind, value = await stepper.tx(Message(1, 0, 1, 0, 2, payload))
        if kind != "ok":
            ctx.violation("send-raised-" + exc_info(value)["class"], f"send of set {payload!r} for a sleeping node raised "
                          f"{value!r:.80}", case)
            return
    direct = transport.take_writes()
    kind, value = await stepper.rx(wake)
    released = [w for w in transport.take_writes() if w.startswith("1;0;1;")]
    await stepper.close()
    latest = f"1;0;1;0;2;{case['payloads'][-1]}\n"
    ctx.case(("latest-only", version, case["reported"], tuple(case["payloads"]), repr(sorted(extra.items()))), nontrivial=True,
             sample={"case": case, "released": released})
    ctx.clause("latest-only")
    if direct:
        ctx.violation("written-while-asleep", f"sets for a sleeping node were written before it woke: {direct}", case)
    stale = [w for w in released if w != latest]
    if stale:
        ctx.violation("stale-value-released", f"the node reported {case['reported']!r}, sets {case['payloads']} were sent "
                      f"while it slept, the wake released {released} - the newest is {latest!r}", case)
    elif released != [latest] and not extra:
        ctx.violation("latest-not-released", f"sets {case['payloads']} were sent while the node slept, the wake released "
                      f"{released}", case)
    elif released != [latest]:
        ctx.obs("latest-only:not-released-under-unknown-option")


def release_despite_stale_neighbours(ctx) -> None:
    """'Written when that node next announces it is awake': also when ANOTHER command parked for the same node has become
    stale (its child was removed from the registry / not presented again) - under the default configuration and under
    every Config option this harness does not know.  (Shares the scenario with C12; here the released command is C07's.)"""
    import itertools

    from .. import harness
    from ..harness import run as arun
    from .c12 import resend_after_release_case, vanished_child_case

    for i, (version, update) in enumerate(itertools.product(("2.0", "2.1", "2.2"), (False, True))):
        if ctx.mine(i):
            arun(resend_after_release_case(ctx, {"kind": "resend-after-release", "version": version, "ack": i % 2, "rounds": 3,
                                                 "update_payload": update, "fail_between": bool(i % 2)}))
    index = 0
    for extra in [{}, *harness.unknown_options()]:
        for version in ("2.0", "2.1", "2.2"):
            for how, stale_first in itertools.product(("child-removed", "re-presented"), (True, False)):
                index += 1
                if not ctx.mine(index):
                    continue
                with harness.options(extra):
                    arun(vanished_child_case(ctx, {"kind": "vanished-child", "version": version, "how": how,
                                                   "stale_first": stale_first, "config_extra": extra}))
    # the newest command wins whatever the node last REPORTED: sends whose payload equals the reported value, an earlier
    # send's value or nothing known, in every order of three - an older payload is never what the wake releases
    index = 0
    for extra in [{}, *harness.unknown_options()]:
        for version in ("2.0", "2.1", "2.2"):
            for reported in ("0", None):
                for payloads in itertools.product(("0", "1", "2"), repeat=3):
                    index += 1
                    if not ctx.mine(index):
                        continue
                    with harness.options(extra):
                        arun(latest_only_case(ctx, {"kind": "latest-only", "version": version, "reported": reported,
                                                    "payloads": list(payloads), "config_extra": extra}))


def run(ctx) -> None:
    with Reach(ANCHORS) as reach:
        run_cases(ctx, cases(ctx))
        release_despite_stale_neighbours(ctx)
    reach.into(ctx)
    for clause in ("wake-flush", "send-set"):
        ctx.require(clause, 100)
