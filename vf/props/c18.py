"""C18 - MQTT transport maps topics and lines one-to-one and never goes silently deaf.

(1) Through the documented extension API (a harness subclass implementing only the four abstract
    hooks): publish arguments for every write, subscriptions vs paho's topic matcher, read-back of
    broker messages, send -> echo -> read -> decode round trip, FIFO / exactly-once delivery of
    messages and receive errors (unique payloads).
(2) MQTTClient on a fake aiomqtt client whose message iterator stays pending when empty, on the
    VLoop: undecodable payloads, broker errors, disconnect at any point; a read that can never
    complete while deliveries are outstanding is a LOGICAL DEADLOCK = "silently deaf".
(3) thorough: the real aiomqtt + paho stack against an in-process MQTT 3.1.1 mini broker.
"""

from __future__ import annotations

import asyncio
import itertools

from .. import gens, spec
from ..harness import VERSIONS, schema_for
from ..harness import run as arun
from ..mqttfake import FakeClient, install
from ..reach import Reach
from ..vloop import LogicalDeadlock, run_virtual

LEVEL = "exploration"
SHARDS = {"quick": 6, "thorough": 16}
RULE = ("prefix pairs (plain, with '/', with digits and '/', blanks, non-ASCII) x boundary messages (C01's well-formed product) x "
        "payload pool (empty, ';', '/', non-ASCII, long); subscription coverage for every command 0-4 and boundary ids; all "
        "interleavings of <= 5 (thorough 7) ops over {valid message, undecodable payload, broker error, read} plus random "
        "scripts of <= 30 ops with disconnect at a random point, on the fake client; distinct = distinct (prefixes, message) "
        "or script; non-trivial = payload non-empty or script with >= 2 deliveries")
ASSUMES = ["payloads are free of line terminators and trailing whitespace (C01's domain)",
           "after a broker error (MqttError) was read nothing further is demanded: the connection is gone",
           "the fake client is installed through the module attribute the transport imports; if no such seam exists the "
           "fake-client workload is skipped and the hook-level workload decides"]
ANCHORS = ["aiomysensors.transport.mqtt:MQTTTransport.write", "aiomysensors.transport.mqtt:MQTTTransport.read",
           "aiomysensors.transport.mqtt:MQTTTransport.connect", "aiomysensors.transport.mqtt:MQTTTransport._receive",
           "aiomysensors.transport.mqtt:MQTTClient._handle_incoming", "aiomysensors.transport.mqtt:MQTTClient._disconnect"]

PREFIXES = [("mygateway1-out", "mygateway1-in"), ("a", "b"), ("a/b", "c/d"), ("a/b/c/d", "e/f/g/h"), ("home/floor1/gw-out", "home/floor1/gw-in"),
            ("1/2", "3/4"), ("gw10/11/0", "gw10/11/1"), ("my gw/out put", "my gw/in put"), ("größe/日本", "größe/入"), ("0", "1"),
            ("255/3/1", "0/0/0/0/0"), ("x/1/0/1/0/0", "y"),
            # every character that is legal in a topic name is legal in a prefix: empty levels (leading / trailing / double
            # '/'), formatting punctuation ('%', '{}'), '$', quotes, backslashes, blanks at the ends
            ("site/gw-out/", "site/gw-in/"), ("/lead-out", "/lead-in"), ("a//b", "c//d"), ("/", "//"),
            ("home%2Fattic-out", "home%2Fattic-in"), ("tank 50%", "tank 51%"), ("a%%b-out", "a%%b-in"), ("%s/%d", "%(x)s"),
            ("{}", "{0}/{in_prefix}"), ("{out", "in}"), ("$SYS-like/$out", "$in"), ("back\\slash", "quote'\"in"),
            (" out ", " in "), ("out\t", "in\n"),
            # the empty prefix is a prefix too (topics then start with '/'): "" is falsy, `x or default` replaces it
            ("", "only-out"), ("only-in", ""), ("", "")]


SPIN = {"max": 0}  # how often the code under test iterated a LOST connection again in the last fake-client scenario


def judge_spin(ctx, case: dict) -> bool:
    """A receive loop may look at a lost connection again once or twice; hundreds of times is a spin that floods the inbox
    with copies of one broker error (and burns a CPU on the real client)."""
    if SPIN["max"] > 100:
        ctx.violation("receive-task-spins", f"after one broker error the receive task iterated the lost connection {SPIN['max']} "
                                            f"more times (every round queues another error for read())", case)
        SPIN["max"] = 0
        return True
    return False


def hooked_transport(in_prefix: str, out_prefix: str):
    from aiomysensors.transport.mqtt import MQTTTransport

    class Hooked(MQTTTransport):
        def __init__(self) -> None:
            super().__init__(in_prefix=in_prefix, out_prefix=out_prefix)
            self.published: list[tuple[str, str, int]] = []
            self.subscribed: list[tuple[str, int]] = []
            self.connected = self.disconnected = 0

        async def _connect(self) -> None:
            self.connected += 1

        async def _disconnect(self) -> None:
            self.disconnected += 1

        async def _publish(self, topic: str, payload: str, qos: int) -> None:
            self.published.append((topic, payload, qos))

        async def _subscribe(self, topic: str, qos: int) -> None:
            self.subscribed.append((topic, qos))

    return Hooked()


async def mapping_case(ctx, prefixes: tuple[str, str], version: str, fields: tuple) -> None:
    from aiomysensors.model.message import Message

    in_prefix, out_prefix = prefixes
    n, c, cmd, ack, t, payload = fields
    case = {"kind": "mapping", "prefixes": list(prefixes), "version": version, "fields": list(fields)}
    ctx.case(("map", prefixes, fields), nontrivial=bool(payload), sample=case)
    transport = hooked_transport(in_prefix, out_prefix)
    schema = schema_for(version)
    line = schema.dump(Message(*fields))
    # write -> publish arguments
    ctx.clause("publish-arguments")
    try:
        await transport.write(line)
    except Exception as exc:  # noqa: BLE001
        key = "mqtt-write-delimiter" if isinstance(exc, ValueError) and ";" in payload else "write-raises-" + type(exc).__name__
        ctx.violation(key, f"write({line!r:.80}) raised {type(exc).__name__}: {exc!s:.80}", case)
        return
    want_topic = f"{out_prefix}/{n}/{c}/{cmd}/{ack}/{t}"
    if transport.published != [(want_topic, payload, ack)]:
        ctx.violation("publish-arguments-differ", f"write({line!r:.80}) published {transport.published!r:.160}, expected "
                                                  f"{(want_topic, payload, ack)!r:.160}", case)
        return
    # echo under the in-prefix -> read -> decode
    ctx.clause("echo-roundtrip")
    echo_topic = f"{in_prefix}/{n}/{c}/{cmd}/{ack}/{t}"
    transport._receive(echo_topic, payload)  # noqa: SLF001  documented hook
    try:
        read_line = await asyncio.wait_for(transport.read(), 5)
    except Exception as exc:  # noqa: BLE001
        ctx.violation("read-back-raises", f"read of echoed {echo_topic!r} raised {type(exc).__name__}", case)
        return
    want_line = f"{n};{c};{cmd};{ack};{t};{payload}"
    if read_line.rstrip("\n") != want_line:
        ctx.violation("read-back-differs", f"broker message on {echo_topic!r} read back as {read_line!r:.100}, expected "
                                           f"{want_line!r:.100}", case)
        return
    try:
        decoded = schema.load(read_line)
    except Exception as exc:  # noqa: BLE001
        ctx.violation("echo-not-decodable", f"echoed line {read_line!r:.80} does not decode: {type(exc).__name__}", case)
        return
    got = (decoded.node_id, decoded.child_id, decoded.command, decoded.ack, decoded.message_type, decoded.payload)
    if got != fields:
        ctx.violation("echo-roundtrip-differs", f"sent {fields!r:.100}, echo decodes to {got!r:.100}", case)


async def subscription_case(ctx, prefixes: tuple[str, str]) -> None:
    from paho.mqtt.client import topic_matches_sub

    in_prefix, out_prefix = prefixes
    case = {"kind": "subscriptions", "prefixes": list(prefixes)}
    try:
        transport = hooked_transport(in_prefix, out_prefix)
        await transport.connect()
    except Exception as exc:  # noqa: BLE001
        ctx.violation("connect-raises", f"constructing / connecting the transport with prefixes {prefixes!r} raised "
                                        f"{type(exc).__name__}: {exc!s:.80}", case)
        return
    ctx.case(("sub", prefixes), sample={**case, "subscribed": transport.subscribed})
    ctx.clause("subscriptions-cover-all-commands")
    if transport.connected != 1:
        ctx.violation("connect-hook-not-called", f"_connect called {transport.connected} times", case)
    for n, c, cmd, ack, t in itertools.product((0, 1, 255), (0, 7, 255), range(5), (0, 1), (0, 3, 33, 56)):
        topic = f"{in_prefix}/{n}/{c}/{cmd}/{ack}/{t}"
        try:
            matched = any(topic_matches_sub(sub, topic) for sub, _qos in transport.subscribed)
        except Exception as exc:  # noqa: BLE001
            ctx.violation("subscription-invalid", f"subscription filter invalid: {exc!s:.80} ({transport.subscribed})", case)
            return
        if not matched:
            ctx.violation("subscription-misses-topic", f"no subscription of {transport.subscribed} matches {topic!r}", case)
            return
    ctx.clause("connect-then-disconnect")
    try:
        await transport.disconnect()
    except Exception as exc:  # noqa: BLE001
        ctx.violation("disconnect-raises", f"{type(exc).__name__}", case)
    # every connect subscribes (a new broker session starts without subscriptions)
    for session in (2, 3, 4):
        if session == 4:
            # the prefixes are public attributes: an application that re-points a transport between two sessions gets
            # subscriptions and topics for the NEW prefixes
            in_prefix, out_prefix = in_prefix + "/moved", "moved/" + out_prefix
            transport.in_prefix, transport.out_prefix = in_prefix, out_prefix
            transport.published.clear()
        transport.subscribed.clear()
        try:
            await transport.connect()
        except Exception as exc:  # noqa: BLE001
            from aiomysensors.exceptions import TransportError

            if isinstance(exc, TransportError):
                ctx.obs("reconnect-refused-loudly")
            else:
                ctx.violation("reconnect-failed", f"connect #{session} raised {type(exc).__name__}", case)
            return
        ctx.clause("subscriptions-after-reconnect")
        for cmd in range(5):
            topic = f"{in_prefix}/3/255/{cmd}/0/1"
            if not any(topic_matches_sub(sub, topic) for sub, _qos in transport.subscribed):
                ctx.violation("subscription-misses-topic",
                              f"connect #{session} on the same transport object subscribed only {transport.subscribed}: nothing "
                              f"matches {topic!r} (a new broker session has no subscriptions, the transport would be deaf)", case)
                return
        if session == 4:
            ctx.clause("prefixes-changed-on-a-live-object")
            await transport.write("5;1;1;1;2;moved\n")
            if transport.published != [(f"{out_prefix}/5/1/1/1/2", "moved", 1)]:
                ctx.violation("publish-arguments-differ", f"after out_prefix was set to {out_prefix!r} on the transport object a "
                                                          f"write published {transport.published!r:.120}", case)
        await transport.disconnect()


def partial_subscribe_case(ctx, failing: list[int], level: str) -> None:
    """The broker refuses SOME of the subscriptions connect() asks for (an ACL on part of the topic tree): either connect()
    fails with a transport error or every command's topics are subscribed - never 'connected' and deaf for a command."""
    from paho.mqtt.client import topic_matches_sub

    from aiomysensors.exceptions import TransportError

    case = {"kind": "partial-subscribe", "failing": list(failing), "level": level}
    out: dict = {}

    async def scenario() -> None:
        if level == "hook":
            transport = hooked_transport("in", "out")
            calls = {"n": 0}
            good = transport._subscribe  # noqa: SLF001

            async def flaky(topic: str, qos: int) -> None:
                index = calls["n"]
                calls["n"] += 1
                await asyncio.sleep(0)
                if index in failing:
                    raise TransportError("subscription refused")
                await good(topic, qos)

            transport._subscribe = flaky  # noqa: SLF001  the documented hook of other client implementations
        else:
            from aiomysensors.transport.mqtt import MQTTClient

            FakeClient.subscribe_fail_calls = set(failing)
            FakeClient.subscribe_calls = 0
            transport = MQTTClient("broker.invalid", 1883, in_prefix="in", out_prefix="out")
        try:
            await transport.connect()
            out["connect"] = "returned"
        except Exception as exc:  # noqa: BLE001
            out["connect"] = exc
        out["subscribed"] = list(transport.subscribed) if level == "hook" else \
            (list(FakeClient.instances[-1].subscriptions) if FakeClient.instances else [])
        try:
            await transport.disconnect()
        except Exception as exc:  # noqa: BLE001
            out["disconnect"] = exc

    with install() as seam:
        if level != "hook" and not seam:
            ctx.skip("fake-client", "no aiomqtt client seam in aiomysensors.transport.mqtt")
            return
        result, _loop = run_virtual(scenario)
    ctx.case(("partial-subscribe", tuple(failing), level), nontrivial=True, sample=case)
    ctx.clause("partial-subscribe")
    if isinstance(result, BaseException):
        from ..harness import scenario_exception

        scenario_exception(ctx, result, case, "partial-subscribe")
        return
    outcome = out.get("connect")
    if isinstance(outcome, BaseException):
        if not isinstance(outcome, TransportError):
            ctx.violation("connect-raises", f"refused subscriptions {failing}: connect raised {type(outcome).__name__}: "
                                            f"{outcome!s:.80}", case)
        else:
            ctx.obs("partial-subscribe:connect-refused-loudly")
        return
    ctx.obs("partial-subscribe:connect-returned")
    for cmd in range(5):
        topic = f"in/3/255/{cmd}/0/1"
        if not any(topic_matches_sub(sub, topic) for sub, _qos in out["subscribed"]):
            ctx.violation("subscription-misses-topic",
                          f"the broker refused subscription call(s) {failing}; connect() returned normally with only "
                          f"{out['subscribed']} in force: nothing matches {topic!r} (connected but deaf for command {cmd})", case)
            return


async def backlog_case(ctx, case: dict) -> None:
    """Hook level: large unread backlogs, reads pending across disconnect/connect, backlog present at reconnect."""
    from aiomysensors.exceptions import TransportFailedError

    transport = hooked_transport("in", "out")
    kind = case["backlog"]
    expected: list[str] = []
    got: list = []

    async def read_all(n: int) -> None:
        for _ in range(n):
            try:
                got.append((await asyncio.wait_for(transport.read(), 5)).rstrip("\n"))
            except TransportFailedError as exc:
                got.append(exc)
            except asyncio.TimeoutError:
                got.append("<read never completed>")
                return

    if kind == "burst":
        await transport.connect()
        for i in range(case["n"]):
            transport._receive(f"in/1/0/1/0/{i}", f"b{i}")  # noqa: SLF001
            expected.append(f"1;0;1;0;{i};b{i}")
        await read_all(len(expected))
    elif kind == "unread-at-reconnect":
        await transport.connect()
        for i in range(3):
            transport._receive(f"in/1/0/1/0/{i}", f"u{i}")  # noqa: SLF001
            expected.append(f"1;0;1;0;{i};u{i}")
        await transport.disconnect()
        await transport.connect()
        transport._receive("in/1/0/1/0/9", "after")  # noqa: SLF001
        expected.append("1;0;1;0;9;after")
        await read_all(len(expected))
    elif kind == "read-pending-across-reconnect":
        await transport.connect()
        reader = asyncio.ensure_future(read_all(1))
        await asyncio.sleep(0)
        await transport.disconnect()
        await transport.connect()
        transport._receive("in/1/0/1/0/5", "late")  # noqa: SLF001
        expected.append("1;0;1;0;5;late")
        await asyncio.wait_for(reader, 10)
    elif kind == "read-before-connect":
        reader = asyncio.ensure_future(read_all(1))
        await asyncio.sleep(0)
        await transport.connect()
        transport._receive("in/1/0/1/0/5", "first")  # noqa: SLF001
        expected.append("1;0;1;0;5;first")
        await asyncio.wait_for(reader, 10)
    ctx.case(("backlog", kind, case.get("n")), sample=case)
    ctx.clause("backlog-delivered")
    if got != expected:
        first_bad = next((i for i, (a, b) in enumerate(zip(got + [None] * len(expected), expected)) if a != b), None)
        ctx.violation("delivery-order-or-count",
                      f"{kind}: {len(expected)} broker messages were received, reads returned {len(got)}; first difference at "
                      f"#{first_bad}: got {got[first_bad] if first_bad is not None and first_bad < len(got) else None!r:.60}, "
                      f"expected {expected[first_bad] if first_bad is not None else None!r:.60}", case)


def client_burst_case(ctx, n: int) -> None:
    """MQTTClient on the fake client: a backlog of n undelivered broker messages, then n reads (VLoop)."""
    from aiomysensors.transport.mqtt import MQTTClient

    case = {"kind": "client-burst", "n": n}
    log: dict = {"got": 0, "bad": None}

    async def scenario() -> None:
        transport = MQTTClient("broker.invalid", 1883, in_prefix="in", out_prefix="out")
        await transport.connect()
        client = FakeClient.instances[-1]
        for i in range(n):
            client.deliver(f"in/1/0/1/0/{i}", f"b{i}".encode())
        for _ in range(5):
            await asyncio.sleep(0)
        for i in range(n):
            log["waiting"] = i
            line = (await transport.read()).rstrip("\n")
            if line != f"1;0;1;0;{i};b{i}" and log["bad"] is None:
                log["bad"] = (i, line)
            log["got"] += 1
        try:
            await transport.disconnect()
        except BaseException as exc:  # noqa: BLE001
            log["disconnect"] = f"{type(exc).__name__}: {exc!s:.60}"

    with install() as seam:
        if not seam:
            ctx.skip("fake-client", "no aiomqtt client seam")
            return
        result, _loop = run_virtual(scenario)
        SPIN["max"] = max([c.raises_after_loss for c in FakeClient.instances] or [0])
    ctx.case(("client-burst", n), sample=case)
    ctx.clause("backlog-delivered")
    if isinstance(result, LogicalDeadlock):
        ctx.clause("deadlock-detector-fired")
        ctx.violation("mqtt-deaf-after-backlog", f"{n} broker messages arrived before any read: read #{log.get('waiting')} can never "
                                                 f"complete (logical deadlock) - reception ended silently", case)
    elif isinstance(result, BaseException):
        from ..harness import scenario_exception

        scenario_exception(ctx, result, case, "client-burst")
    elif log["bad"] is not None:
        ctx.violation("delivery-order-or-count", f"burst of {n}: read #{log['bad'][0]} returned {log['bad'][1]!r}", case)
    elif "disconnect" in log:
        ctx.violation("disconnect-raises", f"after a burst of {n}: disconnect raised {log['disconnect']}", case)


async def fifo_case(ctx, script: list) -> None:
    """Hook level: messages and receive errors are read in arrival order, each exactly once."""
    from aiomysensors.exceptions import TransportFailedError

    transport = hooked_transport("in", "out")
    case = {"kind": "fifo", "script": script}
    expected: list = []
    got: list = []
    uid = 0
    for op in script:
        if op == "msg":
            uid += 1
            transport._receive(f"in/1/0/1/0/{uid}", f"u{uid}")  # noqa: SLF001
            expected.append(f"1;0;1;0;{uid};u{uid}")
        elif op == "err":
            uid += 1
            err = TransportFailedError(f"e{uid}")
            transport._receive_error(err)  # noqa: SLF001
            expected.append(err)
        elif op == "read" and len(got) < len(expected):
            try:
                got.append((await asyncio.wait_for(transport.read(), 5)).rstrip("\n"))
            except TransportFailedError as exc:
                got.append(exc)
        elif op in ("cancelled-read-then-msg", "msg-then-cancel-read"):
            # a read is pending; a message arrives and the reading task is cancelled in the same loop iteration
            # (a timeout deadline coinciding with a delivery): the message must still reach a later read
            pending = asyncio.ensure_future(transport.read())
            await asyncio.sleep(0)
            uid += 1
            if op == "msg-then-cancel-read":
                transport._receive(f"in/1/0/1/0/{uid}", f"u{uid}")  # noqa: SLF001
                pending.cancel()
            else:
                pending.cancel()
                transport._receive(f"in/1/0/1/0/{uid}", f"u{uid}")  # noqa: SLF001
            try:
                got.append((await pending).rstrip("\n"))  # the read may also have completed: then it counts
            except asyncio.CancelledError:
                pass
            except TransportFailedError as exc:
                got.append(exc)
            expected.append(f"1;0;1;0;{uid};u{uid}")
    while len(got) < len(expected):
        try:
            got.append((await asyncio.wait_for(transport.read(), 5)).rstrip("\n"))
        except TransportFailedError as exc:
            got.append(exc)
        except asyncio.TimeoutError:
            break
    ctx.case(("fifo", tuple(script)), nontrivial=len(expected) >= 2, sample=case)
    ctx.clause("fifo-exactly-once")
    if got != expected:
        ctx.violation("delivery-order-or-count", f"script {script}: reads {got!r:.160} expected {expected!r:.160}", case)


def concurrent_reads_case(ctx, readers: int, messages: int, cancel: list[int]) -> None:
    """Several tasks wait in read() on ONE transport at once (a listener plus a watchdog, two consumers): every arriving
    message or error goes to exactly one of them, each exactly once, and what is left is read afterwards in order."""
    from aiomysensors.exceptions import TransportFailedError

    case = {"kind": "concurrent-reads", "readers": readers, "messages": messages, "cancel": list(cancel)}
    out: dict = {}

    async def scenario() -> None:
        transport = hooked_transport("in", "out")

        async def reader() -> object:
            try:
                return (await transport.read()).rstrip("\n")
            except TransportFailedError as exc:
                return f"error:{exc}"

        tasks = [asyncio.ensure_future(reader()) for _ in range(readers)]
        for _ in range(3):
            await asyncio.sleep(0)
        for index in cancel:
            tasks[index].cancel()
        expected = []
        for uid in range(1, messages + 1):
            if uid % 4 == 0:
                transport._receive_error(TransportFailedError(f"e{uid}"))  # noqa: SLF001
                expected.append(f"error:e{uid}")
            else:
                transport._receive(f"in/1/0/1/0/{uid}", f"u{uid}")  # noqa: SLF001
                expected.append(f"1;0;1;0;{uid};u{uid}")
            if uid % 3 == 0:
                await asyncio.sleep(0)
        got = []
        live = [t for i, t in enumerate(tasks) if i not in cancel]
        wanted = min(len(live), messages)
        for _ in range(2000):
            if sum(1 for t in live if t.done()) >= wanted:
                break
            await asyncio.sleep(0)
        for task in live:
            if task.done() and not task.cancelled():
                got.append(task.result())
        out["by_waiters"] = list(got)
        rest = []
        while len(got) + len(rest) < messages:
            try:
                rest.append(await asyncio.wait_for(reader(), 5))
            except asyncio.TimeoutError:
                break
        out["rest"] = rest
        out["expected"] = expected
        for task in tasks:
            task.cancel()

    result, _loop = run_virtual(scenario)
    ctx.case(("concurrent-reads", readers, messages, tuple(cancel)), nontrivial=True, sample=case)
    ctx.clause("concurrent-reads")
    if isinstance(result, LogicalDeadlock):
        ctx.violation("mqtt-deaf", f"{case}: logical deadlock - {messages} items arrived, waiting reads never completed", case)
        return
    if isinstance(result, BaseException):
        from ..harness import scenario_exception

        scenario_exception(ctx, result, case, "concurrent-reads")
        return
    got_all = out["by_waiters"] + out["rest"]
    if sorted(got_all) != sorted(out["expected"]):
        ctx.violation("delivery-order-or-count", f"{readers} tasks waiting in read(), {messages} items arrived: the waiters got "
                                                 f"{out['by_waiters']!r:.200}, later reads {out['rest']!r:.120}; arrived "
                                                 f"{out['expected']!r:.200}", case)
    elif out["rest"] != [e for e in out["expected"] if e in out["rest"]]:
        ctx.violation("delivery-order-or-count", f"items left for later reads came out of order: {out['rest']!r:.200}", case)


def client_script_case(ctx, script: list, prefixes: tuple[str, str] = ("in", "out")) -> None:
    """MQTTClient on the fake aiomqtt client, on the VLoop."""
    from aiomqtt import MqttError

    from aiomysensors.exceptions import TransportError
    from aiomysensors.transport.mqtt import MQTTClient

    case = {"kind": "client-script", "script": [list(op) if isinstance(op, tuple) else op for op in script],
            "prefixes": list(prefixes)}
    log: dict = {"reads": [], "problems": [], "expected": [], "pending_at_deadlock": None}

    async def scenario() -> None:
        transport = MQTTClient("broker.invalid", 1883, in_prefix=prefixes[0], out_prefix=prefixes[1])
        await transport.connect()
        client = FakeClient.instances[-1]
        log["subscriptions"] = list(client.subscriptions)
        expected = log["expected"]
        dead = False
        uid = 0
        disconnected = False

        async def do_read() -> None:
            log["waiting_for"] = expected[len(log["reads"])]
            try:
                log["reads"].append(("line", (await transport.read()).rstrip("\n")))
            except Exception as exc:  # noqa: BLE001
                log["reads"].append(("error", exc))
            log["waiting_for"] = None

        for op in script:
            kind = op[0] if isinstance(op, tuple) else op
            if kind == "msg":
                uid += 1
                payload = op[1] if isinstance(op, tuple) and len(op) > 1 else f"u{uid}"
                if isinstance(op, tuple) and len(op) > 2:
                    payload = payload * int(op[2])  # ("msg", text, repeat): big payloads without big case records
                # broker-side attributes of a delivery that must not matter: QoS of the delivery, RETAIN bit
                client.deliver(f"{prefixes[0]}/1/0/1/0/{uid}", payload.encode(), qos=uid % 2, retain=(uid % 3 == 0))
                if not dead:
                    expected.append(("line", f"1;0;1;0;{uid};{payload}"))
            elif kind == "bin":
                uid += 1
                client.deliver(f"{prefixes[0]}/1/0/1/0/{uid}", op[1] if isinstance(op, tuple) else b"\xff\xfe")
                if not dead:
                    expected.append(("error", "undecodable"))
            elif kind == "err":
                client.deliver_error(MqttError("broker went away"))
                for _ in range(150):  # loop rounds for whatever the receive task does with a lost connection
                    await asyncio.sleep(0)
                if not dead:
                    expected.append(("error", "broker"))
                    dead = True
            elif kind == "read":
                if len(log["reads"]) < len(expected):
                    await do_read()
            elif kind == "yield":
                await asyncio.sleep(0)
            elif kind == "disconnect":
                try:
                    await transport.disconnect()
                except BaseException as exc:  # noqa: BLE001
                    key = "mqtt-disconnect-cancelled" if isinstance(exc, asyncio.CancelledError) else \
                        "disconnect-raises-" + type(exc).__name__
                    log["problems"].append((key, f"disconnect raised {type(exc).__name__}: {exc!s:.80}"))
                disconnected = True
                break
        if not disconnected:
            while len(log["reads"]) < len(expected):
                await do_read()
            try:
                await transport.disconnect()
            except BaseException as exc:  # noqa: BLE001
                key = "mqtt-disconnect-cancelled" if isinstance(exc, asyncio.CancelledError) else \
                    "disconnect-raises-" + type(exc).__name__
                log["problems"].append((key, f"disconnect raised {type(exc).__name__}: {exc!s:.80}"))
        await asyncio.sleep(0)
        left = [t for t in asyncio.all_tasks() if t is not asyncio.current_task() and not t.done()]
        if left:
            log["problems"].append(("task-left-after-disconnect", f"{[repr(t)[:120] for t in left]}"))

    with install() as seam:
        if not seam:
            ctx.skip("fake-client", "no aiomqtt client seam in aiomysensors.transport.mqtt")
            return
        result, loop = run_virtual(scenario)
    ctx.case(("client", tuple(map(repr, script)), prefixes), nontrivial=len(log["expected"]) >= 2, sample=case)
    ctx.clause("client-script-judged")
    if judge_spin(ctx, case):
        return
    if type(result).__name__ == "SpinDetected":
        ctx.violation("receive-task-spins", f"script {case['script']}: after a broker error the receive task keeps iterating the "
                                            f"lost connection (2 000 further errors and counting)", case)
        return
    if isinstance(result, BaseException) and not isinstance(result, LogicalDeadlock):
        from ..harness import scenario_exception

        scenario_exception(ctx, result, case, "client-script")
        return
    if isinstance(result, LogicalDeadlock):
        ctx.clause("deadlock-detector-fired")
        waiting = log.get("waiting_for")
        key = "mqtt-deaf-after-binary" if any(e == ("error", "undecodable") for e in log["expected"][:len(log["reads"]) + 1]) \
            else "mqtt-deaf"
        ctx.violation(key, f"script {case['script']}: a read for {waiting!r:.100} can never complete (logical deadlock: nothing is "
                           f"scheduled and the receive path is silent); reads so far {log['reads']!r:.160}", case)
        return
    for key, what in log["problems"]:
        ctx.violation(key, f"script {case['script']}: {what}", case)
    for (want_kind, want), (kind, value) in zip(log["expected"], log["reads"]):
        if want_kind == "line":
            if kind != "line" or value != want:
                ctx.violation("delivery-order-or-count", f"script {case['script']!r:.300}: read {value!r:.80}, expected {want!r:.80}", case)
                return
        else:
            if kind != "error" or not isinstance(value, TransportError):
                shown = type(value).__name__ if kind == "error" else repr(value)[:60]
                ctx.violation("receive-error-not-transport-error",
                              f"script {case['script']}: {want} surfaced as {shown}", case)
                return


def multi_loop_client_case(ctx, first_session: str) -> None:
    """One MQTTClient object used under a second event loop (a supervisor that calls asyncio.run(main(transport)) again):
    the first run connects, publishes, reads what has already arrived (never waiting) and leaves - cleanly or not at all;
    under the new loop every broker message is read back as its line, connect / disconnect complete."""
    from aiomysensors.transport.mqtt import MQTTClient

    case = {"kind": "multi-loop-client", "first_session": first_session}
    holder: dict = {}

    async def first() -> dict:
        transport = holder["transport"] = MQTTClient("broker.invalid", 1883, in_prefix="in", out_prefix="out")
        await transport.connect()
        client = FakeClient.instances[-1]
        out: dict = {"reads": []}
        await transport.write("1;0;1;0;2;first run\n")
        if first_session != "publish-only":
            client.deliver("in/1/0/1/0/2", b"r1")
            for _ in range(20):
                await asyncio.sleep(0)
            out["reads"].append(await transport.read())  # already queued: the read does not wait
        if first_session != "abandoned":
            await transport.disconnect()
        return out

    async def second() -> dict:
        transport = holder["transport"]
        out: dict = {"reads": []}
        await transport.connect()
        client = FakeClient.instances[-1]
        pending = asyncio.ensure_future(transport.read())  # a read that waits, under this loop
        await asyncio.sleep(0)
        client.deliver("in/2/0/1/0/2", b"s1")
        client.deliver("in/2/0/1/0/3", b"s2")
        out["reads"].append(await pending)
        out["reads"].append(await transport.read())
        await transport.write("2;0;1;0;2;second run\n")
        out["published"] = list(client.published) if hasattr(client, "published") else None
        await transport.disconnect()
        return out

    with install() as seam:
        if not seam:
            ctx.skip("fake-client", "no aiomqtt client seam in aiomysensors.transport.mqtt")
            return
        result1, _loop1 = run_virtual(first)
        result2, _loop2 = run_virtual(second) if isinstance(result1, dict) else (None, None)
    ctx.case(("multi-loop-client", first_session), nontrivial=True, sample=case)
    ctx.clause("client-under-second-loop")
    if not isinstance(result1, dict):
        from ..harness import scenario_exception

        if isinstance(result1, LogicalDeadlock):
            ctx.violation("mqtt-deaf", f"first run ({first_session}): logical deadlock", case)
        else:
            scenario_exception(ctx, result1, case, "multi-loop-client first run")
        return
    if first_session != "publish-only" and [r.rstrip("\n") for r in result1["reads"]] != ["1;0;1;0;2;r1"]:
        ctx.violation("delivery-order-or-count", f"first run read {result1['reads']}", case)
    if isinstance(result2, LogicalDeadlock):
        ctx.violation("mqtt-deaf", f"second run under a new event loop (first run: {first_session}): a read can never complete "
                                   f"although the broker delivered (logical deadlock)", case)
    elif isinstance(result2, BaseException):
        from ..harness import is_library_error

        key = "second-loop-raised-" + type(result2).__name__
        if is_library_error(result2) and first_session == "abandoned":
            ctx.obs("multi-loop-client:abandoned-first-run-refused:" + type(result2).__name__)
        else:
            ctx.violation(key, f"second run under a new event loop (first run: {first_session}) raised "
                               f"{type(result2).__name__}: {result2!s:.100}", case)
    elif [r.rstrip("\n") for r in result2["reads"]] != ["2;0;1;0;2;s1", "2;0;1;0;3;s2"]:
        ctx.violation("delivery-order-or-count", f"second run under a new event loop read {result2['reads']}", case)


def client_publish_case(ctx, prefixes: tuple[str, str], lines: list[str]) -> None:
    """MQTTClient on the fake client: what reaches the client's publish() for each written line."""
    from aiomysensors.transport.mqtt import MQTTClient

    case = {"kind": "client-publish", "prefixes": list(prefixes), "lines": lines}
    log: dict = {}

    async def scenario() -> None:
        transport = MQTTClient("broker.invalid", 1883, in_prefix=prefixes[0], out_prefix=prefixes[1])
        await transport.connect()
        client = FakeClient.instances[-1]
        log["subscriptions"] = list(client.subscriptions)
        errors = []
        for line in lines:
            try:
                await transport.write(line)
            except Exception as exc:  # noqa: BLE001
                errors.append(f"{type(exc).__name__}: {exc!s:.60}")
        log["published"] = list(client.published)
        log["errors"] = errors
        await transport.disconnect()

    with install() as seam:
        if not seam:
            ctx.skip("fake-client", "no aiomqtt client seam in aiomysensors.transport.mqtt")
            return
        result, _loop = run_virtual(scenario)
        SPIN["max"] = max([c.raises_after_loss for c in FakeClient.instances] or [0])
    ctx.case(("client-publish", prefixes, tuple(lines)), sample=case)
    ctx.clause("client-publish-arguments")
    if isinstance(result, BaseException) and not isinstance(result, LogicalDeadlock):
        from ..harness import scenario_exception

        scenario_exception(ctx, result, case, "client-publish")
        return
    if isinstance(result, LogicalDeadlock):
        ctx.violation("mqtt-deaf", "logical deadlock while publishing", case)
        return
    if log["errors"]:
        ctx.violation("write-raises", f"write raised {log['errors'][:2]}", case)
        return
    want = []
    for line in lines:
        n, c, cmd, ack, t, payload = line.rstrip("\n").split(";", 5)
        want.append((f"{prefixes[1]}/{n}/{c}/{cmd}/{ack}/{t}", payload, int(ack), False))
    got = [(topic, "" if payload is None else (payload.decode() if isinstance(payload, bytes) else payload), qos, retain)
           for topic, payload, qos, retain in log["published"]]
    if got != want:
        ctx.violation("publish-arguments-differ", f"client.publish received {got!r:.200}, expected {want!r:.200}", case)
    from paho.mqtt.client import topic_matches_sub

    ctx.clause("client-subscriptions")
    for cmd in range(5):
        topic = f"{prefixes[0]}/7/255/{cmd}/1/33"
        if not any(topic_matches_sub(sub, topic) for sub, _q in log["subscriptions"]):
            ctx.violation("subscription-misses-topic", f"client subscriptions {log['subscriptions']} do not match {topic!r}", case)
            break


def concurrent_publish_case(ctx, case: dict) -> None:
    """Several tasks write through one MQTTClient while the broker is slow (publish suspended); some of the waiting
    writers are cancelled (a wait_for around send expiring).  Every write() that RETURNS must have published exactly
    its own topic / payload / QoS, in call order; nothing that was not written may be published."""
    from aiomysensors.transport.mqtt import MQTTClient

    log: dict = {}

    async def scenario() -> None:
        transport = MQTTClient("broker.invalid", 1883, in_prefix="in", out_prefix="out")
        await transport.connect()
        client = FakeClient.instances[-1]
        FakeClient.publish_gate = asyncio.Event()
        completed: list[str] = []
        cancelled: list[str] = []

        async def writer(line: str) -> None:
            await transport.write(line)
            completed.append(line)

        lines = [f"{i % 250};0;1;{i % 2};{i};p{i}\n" for i in range(1, case["writers"] + 1)]
        if case.get("all_acked"):
            lines = [f"{i % 250};0;1;1;{i};p{i}\n" for i in range(1, case["writers"] + 1)]
        for wave in range(case.get("waves", 1)):
            # every wave: the broker stalls, the writers wait, some are cancelled, the broker recovers
            FakeClient.publish_gate = asyncio.Event()
            if wave == 0:
                base_lines = wave_lines = list(lines)
            else:
                wave_lines = [line.replace(";p", f";w{wave}p") for line in base_lines]
                lines = lines + wave_lines
            tasks = [asyncio.ensure_future(writer(line)) for line in wave_lines]
            for _ in range(4):
                await asyncio.sleep(0)
            for index in case["cancel"]:
                if index < len(tasks):
                    tasks[index].cancel()
                    cancelled.append(wave_lines[index])
            for _ in range(2):
                await asyncio.sleep(0)
            FakeClient.publish_gate.set()
            await asyncio.gather(*tasks, return_exceptions=True)
        later = [f"9;9;1;{i % 2};{90 + i};late{i}\n" for i in range(case["later"])]
        for line in later:
            await writer(line)
        log.update(completed=completed, cancelled=cancelled, published=list(client.published), lines=lines + later)
        FakeClient.publish_gate = None
        await transport.disconnect()

    with install() as seam:
        if not seam:
            ctx.skip("fake-client", "no aiomqtt client seam")
            return
        result, _loop = run_virtual(scenario)
        SPIN["max"] = max([c.raises_after_loss for c in FakeClient.instances] or [0])
    ctx.case(("concurrent-publish", case["writers"], tuple(case["cancel"]), case["later"], case.get("waves", 1),
              case.get("all_acked", False)), sample=case if case["writers"] < 10 else {**case, "cancel": f"{len(case['cancel'])} writers"})
    ctx.clause("concurrent-publish")
    if isinstance(result, LogicalDeadlock):
        ctx.violation("mqtt-write-deadlock", "logical deadlock: a write can never complete", case)
        return
    if isinstance(result, BaseException):
        ctx.violation("concurrent-publish-raised", f"{type(result).__name__}: {result!s:.80}", case)
        return

    def args_of(line: str) -> tuple:
        n, c, cmd, ack, t, payload = line.rstrip("\n").split(";", 5)
        return (f"out/{n}/{c}/{cmd}/{ack}/{t}", payload, int(ack))

    published = [(topic, "" if payload is None else payload, qos) for topic, payload, qos, _r in log["published"]]
    must = [args_of(line) for line in log["lines"] if line in log["completed"]]
    may = {args_of(line) for line in log["cancelled"]}
    core = [p for p in published if p not in may or p in must]
    if [p for p in core if p in must] != must or [p for p in published if p not in must and p not in may]:
        ctx.violation("publish-arguments-differ",
                      f"{case['writers']} concurrent writers, cancelled {case['cancel']}: completed writes {must!r:.200} but the "
                      f"client published {published!r:.200}", case)


def read_write_mix_case(ctx, script: list) -> None:
    """Receiving and sending on ONE client interleaved: broker messages, undecodable payloads, broker errors, reads, writes
    the broker accepts and writes it refuses.  Reads deliver exactly what arrived from the broker, in order (a refused
    publish is the WRITER's error, it is not also a receive error); writes publish or raise whatever was received before."""
    from aiomqtt import MqttError

    from aiomysensors.exceptions import TransportError
    from aiomysensors.transport.mqtt import MQTTClient

    case = {"kind": "read-write-mix", "script": script}
    log: dict = {"reads": [], "expected": [], "problems": []}

    async def scenario() -> None:
        transport = MQTTClient("broker.invalid", 1883, in_prefix="in", out_prefix="out")
        await transport.connect()
        client = FakeClient.instances[-1]
        dead = False
        uid = 0
        for op in script:
            uid += 1
            if op == "msg":
                client.deliver(f"in/1/0/1/0/{uid}", f"m{uid}".encode())
                if not dead:
                    log["expected"].append(("line", f"1;0;1;0;{uid};m{uid}"))
            elif op == "bin":
                client.deliver(f"in/1/0/1/0/{uid}", b"\xff\xfe")
                if not dead:
                    log["expected"].append(("error", "undecodable"))
            elif op == "err":
                client.deliver_error(MqttError("broker went away"))
                for _ in range(150):  # loop rounds for whatever the receive task does with a lost connection
                    await asyncio.sleep(0)
                if not dead:
                    log["expected"].append(("error", "broker"))
                dead = True
            elif op == "read":
                if len(log["reads"]) >= len(log["expected"]):
                    continue  # nothing has arrived for this read: skip (pending reads are another workload)
                log["waiting"] = True
                try:
                    log["reads"].append(("line", (await transport.read()).rstrip("\n")))
                except Exception as exc:  # noqa: BLE001
                    log["reads"].append(("error", exc))
                log["waiting"] = False
            elif op in ("write", "write-acked", "write-refused"):
                acked = int(op == "write-acked")
                line = f"9;{uid % 200};1;{acked};2;w{uid}\n"
                before = len(client.published)
                FakeClient.publish_error = MqttError("publish refused") if op == "write-refused" else None
                try:
                    await transport.write(line)
                    outcome = "ok"
                except Exception as exc:  # noqa: BLE001
                    outcome = exc
                FakeClient.publish_error = None
                published = client.published[before:]
                if op == "write-refused":
                    if outcome == "ok":
                        log["problems"].append(("publish-refusal-swallowed", f"op #{uid}: the broker refused the publish, write returned"))
                    elif not isinstance(outcome, TransportError):
                        log["problems"].append(("write-raises", f"op #{uid}: refused publish raised {type(outcome).__name__}"))
                elif dead:
                    pass  # after a broker error nothing further is demanded of writes
                elif outcome != "ok":
                    log["problems"].append(("write-fails-without-broker-error",
                                            f"op #{uid} ({op}) after {script[:uid - 1]}: write raised {type(outcome).__name__}: "
                                            f"{outcome!s:.60} although the broker accepts publishes"))
                elif published != [(f"out/9/{uid % 200}/1/{acked}/2", f"w{uid}", acked, False)]:
                    log["problems"].append(("publish-arguments-differ", f"op #{uid}: published {published!r:.120}"))
            await asyncio.sleep(0)
        try:
            await transport.disconnect()
        except Exception as exc:  # noqa: BLE001
            log["problems"].append(("disconnect-raises", f"{type(exc).__name__}"))

    with install() as seam:
        if not seam:
            return
        result, _loop = run_virtual(scenario)
        SPIN["max"] = max([c.raises_after_loss for c in FakeClient.instances] or [0])
    ctx.case(("read-write-mix", tuple(script)), sample=case)
    ctx.clause("read-write-mix")
    if judge_spin(ctx, case):
        return
    if isinstance(result, LogicalDeadlock):
        ctx.violation("mqtt-deaf", f"script {script}: a read for something that HAS arrived can never complete", case)
        return
    if isinstance(result, BaseException):
        from ..harness import scenario_exception

        scenario_exception(ctx, result, case, "read-write-mix")
        return
    for key, what in log["problems"][:2]:
        ctx.violation(key, f"script {script}: {what}", case)
    for index, (kind, value) in enumerate(log["reads"]):
        want_kind, want = log["expected"][index]
        if kind != want_kind or (kind == "line" and value != want):
            ctx.violation("delivery-order-or-count", f"script {script}: read #{index} gave {kind} {value!r:.60}, arrival #{index} "
                                                     f"was {want_kind} {want!r}", case)
            break
        if kind == "error" and not isinstance(value, TransportError):
            ctx.violation("read-raises-non-transport-error", f"script {script}: read #{index} raised {type(value).__name__}", case)
            break


def hung_broker_disconnect_case(ctx, delay: float) -> None:
    """The broker does not answer the DISCONNECT: the aiomqtt client's own exit takes `delay` virtual seconds and then gives
    up with ITS error (an MqttError).  disconnect() completes without raising, and the object connects again."""
    from aiomqtt import MqttError

    from aiomysensors.transport.mqtt import MQTTClient

    case = {"kind": "hung-broker-disconnect", "delay": delay}
    log: dict = {}

    async def scenario() -> None:
        transport = MQTTClient("broker.invalid", 1883, in_prefix="in", out_prefix="out")
        await transport.connect()
        FakeClient.exit_delay = delay
        FakeClient.exit_timeout_error = MqttError("Operation timed out")
        try:
            await transport.disconnect()
            log["disconnect"] = "ok"
        except Exception as exc:  # noqa: BLE001
            log["disconnect"] = exc
        FakeClient.exit_delay = 0.0
        FakeClient.exit_timeout_error = None
        try:
            await transport.connect()
            FakeClient.instances[-1].deliver("in/2/0/1/0/2", b"after")
            log["after"] = await transport.read()
            await transport.disconnect()
        except Exception as exc:  # noqa: BLE001
            log["again"] = exc

    with install() as seam:
        if not seam:
            return
        result, _loop = run_virtual(scenario)
        SPIN["max"] = max([c.raises_after_loss for c in FakeClient.instances] or [0])
    ctx.case(("hung-broker-disconnect", delay), sample=case)
    ctx.clause("disconnect-from-a-hung-broker")
    if isinstance(result, LogicalDeadlock):
        ctx.violation("mqtt-deaf", f"after a disconnect that took {delay} s the transport never reads again", case)
        return
    if isinstance(result, BaseException):
        from ..harness import scenario_exception

        scenario_exception(ctx, result, case, "hung-broker-disconnect")
        return
    if isinstance(log.get("disconnect"), BaseException):
        exc = log["disconnect"]
        ctx.violation("disconnect-raises", f"the broker did not answer the DISCONNECT for {delay} virtual seconds (the client's own "
                                           f"exit then fails with an MqttError): disconnect raised {type(exc).__name__}: {exc!s:.60}", case)
    if isinstance(log.get("again"), BaseException):
        exc = log["again"]
        ctx.violation("reconnect-failed", f"after a disconnect from a hung broker ({delay} s) connecting again raised "
                                          f"{type(exc).__name__}: {exc!s:.80}", case)
    elif (log.get("after") or "").rstrip("\n") != "2;0;1;0;2;after":
        ctx.violation("read-back-differs", f"after reconnecting: read {log.get('after')!r}", case)


def reconnect_after_error_case(ctx, with_disconnect: bool, pending_read: bool) -> None:
    """The broker connection breaks (receive error), the application connects again - with or without calling
    disconnect() first.  connect() may refuse loudly (any exception); if it returns, the transport must hear the broker
    again: a connect that returns normally and leaves the transport without a client is silent deafness."""
    from aiomqtt import MqttError

    from aiomysensors.transport.mqtt import MQTTClient

    case = {"kind": "reconnect-after-error", "with_disconnect": with_disconnect, "pending_read": pending_read}
    log: dict = {}

    async def scenario() -> None:
        transport = MQTTClient("broker.invalid", 1883, in_prefix="in", out_prefix="out")
        await transport.connect()
        first = FakeClient.instances[-1]
        first.deliver("in/1/0/1/0/1", b"before")
        log["before"] = await transport.read()
        first.deliver_error(MqttError("broker went away"))
        for _ in range(150):
            await asyncio.sleep(0)
        try:
            await transport.read()
            log["error_read"] = "returned"
        except Exception as exc:  # noqa: BLE001
            log["error_read"] = type(exc).__name__
        if with_disconnect:
            await transport.disconnect()
        try:
            await transport.connect()
        except Exception as exc:  # noqa: BLE001
            log["connect"] = f"refused loudly: {type(exc).__name__}"
            return
        log["connect"] = "returned"
        clients = [c for c in FakeClient.instances if c.entered > c.exited]
        log["live_clients"] = len(clients)
        for client in FakeClient.instances:
            client.deliver("in/2/0/1/0/2", b"after")
        log["waiting"] = True
        log["after"] = await transport.read()
        log["waiting"] = False
        await transport.disconnect()

    with install() as seam:
        if not seam:
            return
        result, _loop = run_virtual(scenario)
        SPIN["max"] = max([c.raises_after_loss for c in FakeClient.instances] or [0])
    ctx.case(("reconnect-after-error", with_disconnect, pending_read), sample=case)
    ctx.clause("reconnect-after-broker-error")
    if judge_spin(ctx, case):
        return
    if isinstance(result, LogicalDeadlock):
        if log.get("waiting"):
            ctx.violation("mqtt-deaf", f"after a broker error connect() {'(after disconnect) ' if with_disconnect else ''}returned "
                                       f"normally, {log.get('live_clients')} client(s) connected, but a broker message on the "
                                       f"in-prefix is never read (logical deadlock)", case)
        else:
            ctx.violation("mqtt-deadlock", f"logical deadlock in {case}: {log}", case)
        return
    if isinstance(result, BaseException):
        from ..harness import scenario_exception

        scenario_exception(ctx, result, case, "reconnect-after-error")
        return
    ctx.obs("reconnect-after-error:" + str(log.get("connect")))
    if log.get("connect") == "returned" and (log.get("after") or "").rstrip("\n") != "2;0;1;0;2;after":
        ctx.violation("read-back-differs", f"after reconnecting the transport read {log.get('after')!r}", case)


def disconnect_during_publish_case(ctx, variant: str, acked: int) -> None:
    """disconnect() is called by one task while ANOTHER task's publish is still on its way to a slow broker; then that
    publish fails, completes, never completes, or its writer is cancelled.  'Disconnect at any time': it completes
    without raising, the client is exited exactly once, and the object can connect again."""
    from aiomqtt import MqttError

    from aiomysensors.transport.mqtt import MQTTClient

    case = {"kind": "disconnect-during-publish", "variant": variant, "acked": acked}
    log: dict = {}

    async def scenario() -> None:
        transport = MQTTClient("broker.invalid", 1883, in_prefix="in", out_prefix="out")
        await transport.connect()
        client = FakeClient.instances[-1]
        FakeClient.publish_gate = asyncio.Event()
        writer = asyncio.ensure_future(transport.write(f"1;0;1;{acked};2;on the way\n"))
        for _ in range(4):
            await asyncio.sleep(0)
        closing = asyncio.ensure_future(transport.disconnect())
        for _ in range(3):
            await asyncio.sleep(0)
        if variant == "publish-fails":
            FakeClient.publish_error = MqttError("broker went away")
            FakeClient.publish_gate.set()
        elif variant == "writer-cancelled":
            writer.cancel()
        elif variant == "publish-completes":
            FakeClient.publish_gate.set()
        done, _pending = await asyncio.wait([closing], timeout=30)
        if not done:
            log["disconnect"] = "pending after 30 virtual seconds"
            closing.cancel()
        else:
            log["disconnect"] = closing.exception() if not closing.cancelled() else asyncio.CancelledError()
        writer.cancel()
        await asyncio.gather(writer, closing, return_exceptions=True)
        log["exited"] = client.exited
        FakeClient.publish_gate = None
        FakeClient.publish_error = None
        try:
            await transport.connect()
            await transport.write("2;0;1;0;2;again\n")
            log["again"] = list(FakeClient.instances[-1].published)[-1:]
            await transport.disconnect()
        except Exception as exc:  # noqa: BLE001
            log["again"] = exc

    with install() as seam:
        if not seam:
            return
        result, _loop = run_virtual(scenario)
        SPIN["max"] = max([c.raises_after_loss for c in FakeClient.instances] or [0])
    ctx.case(("disconnect-during-publish", variant, acked), sample=case)
    ctx.clause("disconnect-during-publish")
    if isinstance(result, LogicalDeadlock):
        ctx.violation("mqtt-disconnect-deadlock", f"logical deadlock ({variant})", case)
        return
    if isinstance(result, BaseException):
        ctx.violation("disconnect-during-publish-raised", f"{type(result).__name__}: {result!s:.80}", case)
        return
    outcome = log.get("disconnect")
    if isinstance(outcome, BaseException):
        ctx.violation("disconnect-raises", f"disconnect() while another task's publish was pending ({variant}) raised "
                                           f"{type(outcome).__name__}: {outcome!s:.80}", case)
    elif isinstance(outcome, str) and variant != "publish-stalls":
        ctx.violation("disconnect-hangs", f"disconnect() while another task's publish was pending ({variant}): {outcome}", case)
    elif isinstance(outcome, str):
        ctx.obs("disconnect-waits-for-stalled-publish")
    if log.get("exited") != 1 and not isinstance(outcome, str):
        ctx.violation("disconnect-not-called", f"after disconnect ({variant}) the aiomqtt client was exited {log.get('exited')} times",
                      case)
    if isinstance(log.get("again"), BaseException):
        ctx.obs("reconnect-after-racing-disconnect-refused:" + type(log["again"]).__name__)
    elif log.get("again") != [("out/2/0/1/0/2", "again", 0, False)]:
        ctx.violation("publish-arguments-differ", f"after a disconnect that raced a publish ({variant}) the next session "
                                                  f"published {log.get('again')!r:.120}", case)


async def two_clients_case(ctx, n_clients: int) -> None:
    """Several MQTTClient transports of one process on one broker (two gateways behind one Mosquitto): the real aiomqtt /
    paho client against the in-process broker, which - like every conforming broker - drops an existing connection when
    another one presents the same client id.  Every transport must receive its own messages and publish its own lines."""
    from aiomysensors.transport.mqtt import MQTTClient

    from ..minibroker import MiniBroker

    case = {"kind": "two-clients", "clients": n_clients}
    broker = MiniBroker()
    await broker.start()
    problems: list[tuple[str, str]] = []
    transports = []
    try:
        for index in range(n_clients):
            transport = MQTTClient("127.0.0.1", broker.port, in_prefix=f"gw{index}-out", out_prefix=f"gw{index}-in")
            try:
                await asyncio.wait_for(transport.connect(), 20)
            except Exception as exc:  # noqa: BLE001
                problems.append(("connect-raises", f"connecting transport #{index} to a working broker raised "
                                                   f"{type(exc).__name__}: {exc!s:.80}"))
                break
            transports.append(transport)
            await asyncio.sleep(0.05)
        for round_ in range(2 if not problems else 0):
            for index, transport in enumerate(transports):
                await broker.publish(f"gw{index}-out/{index + 1}/0/1/0/2", f"r{round_}".encode())
            for index, transport in enumerate(transports):
                try:
                    line = await asyncio.wait_for(transport.read(), 10)
                except asyncio.TimeoutError:
                    problems.append(("mqtt-deaf", f"transport #{index} of {n_clients} on one broker never received its message "
                                                  f"(round {round_}; broker saw client-id takeovers: {len(broker.takeovers)})"))
                    break
                except Exception as exc:  # noqa: BLE001
                    problems.append(("read-raises-without-broker-error", f"transport #{index} of {n_clients} on one broker: read "
                                                                         f"raised {type(exc).__name__}: {exc!s:.80} (client-id "
                                                                         f"takeovers at the broker: {len(broker.takeovers)})"))
                    break
                else:
                    if line.rstrip("\n") != f"{index + 1};0;1;0;2;r{round_}":
                        problems.append(("read-back-differs", f"transport #{index} read {line!r}"))
                try:
                    await asyncio.wait_for(transport.write(f"{index + 1};0;1;0;3;w{round_}\n"), 10)
                except Exception as exc:  # noqa: BLE001
                    problems.append(("write-raises", f"transport #{index}: write raised {type(exc).__name__}: {exc!s:.60}"))
            if problems:
                break
        await asyncio.sleep(0.1)
        for transport in transports:
            try:
                await asyncio.wait_for(transport.disconnect(), 10)
            except Exception as exc:  # noqa: BLE001
                if not problems:
                    problems.append(("disconnect-raises", f"{type(exc).__name__}: {exc!s:.60}"))
    finally:
        await broker.stop()
    ctx.case(("two-clients", n_clients), sample=case)
    ctx.clause("several-transports-one-broker")
    ctx.obs("broker-client-id-takeovers", len(broker.takeovers))
    want = sorted((f"gw{i}-in/{i + 1}/0/1/0/3", f"w{r}".encode(), 0) for i in range(n_clients) for r in range(2))
    if not problems and sorted(broker.published) != want:
        problems.append(("publish-arguments-differ", f"broker received {sorted(broker.published)!r:.200}, expected {want!r:.200}"))
    for key, what in problems[:2]:
        ctx.violation(key, what, case)


# ----------------------------------------------------------------------------- mini broker (thorough)
async def broker_case(ctx, n_messages: int, seed: int) -> None:
    import random

    from aiomysensors.transport.mqtt import MQTTClient

    from ..minibroker import MiniBroker

    rng = random.Random(seed)
    broker = MiniBroker()
    await broker.start()
    case = {"kind": "minibroker", "messages": n_messages, "seed": seed}
    transport = MQTTClient("127.0.0.1", broker.port, in_prefix="gw/out", out_prefix="gw/in")
    try:
        await asyncio.wait_for(transport.connect(), 20)
        await asyncio.sleep(0.05)
        ctx.clause("broker-subscriptions")
        if len(broker.subscriptions) < 5:
            ctx.violation("subscription-misses-topic", f"broker saw subscriptions {broker.subscriptions}", case)
        sent = []
        for i in range(n_messages):
            ack = rng.randint(0, 1)
            payload = rng.choice(["", f"v{i}", "a;b;c", "x/y", "åäö", "日本"])
            line = f"{rng.randint(0, 255)};{rng.randint(0, 254)};1;{ack};{rng.randint(0, 50)};{payload}\n"
            await asyncio.wait_for(transport.write(line), 20)
            sent.append(line)
        await asyncio.sleep(0.1)
        ctx.clause("broker-publishes")
        want = [(f"gw/in/{ln.rstrip().split(';', 5)[0]}/{ln.rstrip().split(';', 5)[1]}/1/{ln.rstrip().split(';', 5)[3]}/"
                 f"{ln.rstrip().split(';', 5)[4]}", ln.rstrip("\n").split(";", 5)[5].encode(), int(ln.split(";")[3])) for ln in sent]
        if broker.published != want:
            ctx.violation("publish-arguments-differ", f"broker received {broker.published[:3]!r:.200} expected {want[:3]!r:.200}", case)
        # broker -> client, incl. a topic the subscriptions must NOT need (command 7) and wildcard coverage
        expected = []
        for i in range(n_messages):
            cmd = rng.randint(0, 4)
            child = 255 if cmd in (3, 4) else rng.randint(0, 254)
            topic = f"gw/out/{rng.randint(0, 255)}/{child}/{cmd}/{rng.randint(0, 1)}/{rng.randint(0, 5)}"
            payload = f"b{i}"
            await broker.publish(topic, payload.encode(), qos=rng.randint(0, 1))
            expected.append(";".join(topic.split("/")[2:]) + ";" + payload)
        got = []
        for _ in expected:
            try:
                got.append((await asyncio.wait_for(transport.read(), 10)).rstrip("\n"))
            except asyncio.TimeoutError:
                break
        ctx.clause("broker-delivery")
        if got != expected:
            ctx.violation("delivery-order-or-count", f"through the real client: read {got[:4]!r:.200} expected {expected[:4]!r:.200}", case)
        ctx.clause("connect-then-disconnect")
        try:
            await asyncio.wait_for(transport.disconnect(), 20)
        except BaseException as exc:  # noqa: BLE001
            key = "mqtt-disconnect-cancelled" if isinstance(exc, asyncio.CancelledError) else "disconnect-raises-" + type(exc).__name__
            ctx.violation(key, f"real client: disconnect raised {type(exc).__name__}", case)
    finally:
        await broker.stop()
    ctx.case(("broker", n_messages, seed), sample=case)


def run_case(ctx, case: dict) -> None:
    kind = case["kind"]
    if kind == "mapping":
        arun(mapping_case(ctx, tuple(case["prefixes"]), case["version"], tuple(case["fields"])))
    elif kind == "subscriptions":
        arun(subscription_case(ctx, tuple(case["prefixes"])))
    elif kind == "fifo":
        arun(fifo_case(ctx, case["script"]))
    elif kind == "concurrent-reads":
        concurrent_reads_case(ctx, case["readers"], case["messages"], case["cancel"])
    elif kind == "partial-subscribe":
        partial_subscribe_case(ctx, case["failing"], case["level"])
    elif kind == "multi-loop-client":
        multi_loop_client_case(ctx, case["first_session"])
    elif kind == "client-script":
        script = [tuple(bytes.fromhex(x["__bytes__"]) if isinstance(x, dict) else x for x in op) if isinstance(op, list) else op
                  for op in case["script"]]
        client_script_case(ctx, script, tuple(case["prefixes"]))
    elif kind == "concurrent-publish":
        concurrent_publish_case(ctx, case)
    elif kind == "hung-broker-disconnect":
        hung_broker_disconnect_case(ctx, case["delay"])
    elif kind == "read-write-mix":
        read_write_mix_case(ctx, case["script"])
    elif kind == "reconnect-after-error":
        reconnect_after_error_case(ctx, case["with_disconnect"], case["pending_read"])
    elif kind == "two-clients":
        arun(two_clients_case(ctx, case["clients"]))
    elif kind == "disconnect-during-publish":
        disconnect_during_publish_case(ctx, case["variant"], case["acked"])
    elif kind == "client-burst":
        client_burst_case(ctx, case["n"])
    elif "backlog" in case:
        arun(backlog_case(ctx, case))
    elif kind == "client-publish":
        client_publish_case(ctx, tuple(case["prefixes"]), case["lines"])
    elif kind == "minibroker":
        arun(broker_case(ctx, case["messages"], case["seed"]))


def run(ctx) -> None:
    rng = ctx.rng
    payloads = [p for p in gens.PAYLOAD_POOL if spec.payload_ok_for_roundtrip(p)]
    # an MQTT payload is free text: line feeds INSIDE it are legal here (the stream transports could not carry them)
    # (not at the END: trailing whitespace belongs to the line terminator, as in C01)
    payloads += ["line1\nline2", "\nb", "Temp: 21;Hum: 40\nDoor: open", "x\r\ny", "\n\n;x"]
    with Reach(ANCHORS) as reach:
        heads = list(gens.wellformed_messages_small())
        count = 0
        for prefixes in PREFIXES:
            if ctx.mine():
                arun(subscription_case(ctx, prefixes))
            for head in heads[:: ctx.pick(9, 2)]:
                if not ctx.mine():
                    continue
                count += 1
                payload = payloads[count % len(payloads)]
                arun(mapping_case(ctx, prefixes, VERSIONS[count % 5], (*head, payload)))
        ctx.exhaustive["prefix-x-message-cases"] = count
        # dictionary payloads / topic levels: text the transport modules themselves mention (vf.codedict), novel text first
        from .. import codedict

        try:
            words = codedict.systematic_candidates(codedict.TRANSPORT_MODULES, ctx.pick(150, 800))
        except Exception:  # noqa: BLE001
            words = []
        for i, word in enumerate(words):
            if not ctx.mine(i):
                continue
            ctx.clause("dictionary-payload")
            safe = word.replace("\n", " ")
            arun(mapping_case(ctx, PREFIXES[i % 5], VERSIONS[i % 5], (1 + i % 200, i % 3, 1, i % 2, 47, safe)))
            if "/" not in safe and "+" not in safe and "#" not in safe and safe.strip():
                arun(mapping_case(ctx, (safe + "-in", safe + "-out"), VERSIONS[i % 5], (7, 0, 1, 0, 2, "v")))
            client_script_case(ctx, [("msg", safe), "read", ("msg", "plain"), ("msg", safe + " 2.3.2"), "read", "read"])
        # payload sizes: a few MB always (MQTT allows 256 MB); numeric constants of the code under test that the reference
        # tree does not have and that look like byte counts are crossed by one byte
        big_sizes = sorted({ctx.pick(2_500_000, 20_000_000), 70_000,
                            *(int(n) + 1 for n in codedict.novel_numbers() if 1000 <= n <= 64_000_000)})
        for i, size in enumerate(big_sizes):
            if ctx.mine(i + 3):
                ctx.clause("big-payload")
                ctx.obs(f"big-payload-bytes:{size}")
                client_script_case(ctx, [("msg", "b", size), ("msg", "after"), "read", "read", ("msg", "c", size // 2), "read"])
        for i in range(ctx.pick(1500, 400000) // ctx.shard_count):
            prefixes = rng.choice(PREFIXES)
            arun(mapping_case(ctx, prefixes, rng.choice(VERSIONS), (*gens.random_wellformed(rng), gens.random_payload(rng))))
        # FIFO at hook level
        for length in range(1, ctx.pick(6, 8)):
            for script in itertools.product(("msg", "err", "read", "msg-then-cancel-read", "cancelled-read-then-msg")
                                            if length <= 5 else ("msg", "err", "read"), repeat=length):
                if ctx.mine():
                    arun(fifo_case(ctx, list(script)))
        for i, case in enumerate([{"kind": "backlog", "backlog": "burst", "n": 10}, {"kind": "backlog", "backlog": "burst", "n": 1500},
                                  {"kind": "backlog", "backlog": "burst", "n": ctx.pick(5000, 70000)},
                                  {"kind": "backlog", "backlog": "unread-at-reconnect"},
                                  {"kind": "backlog", "backlog": "read-pending-across-reconnect"},
                                  {"kind": "backlog", "backlog": "read-before-connect"}]):
            if ctx.mine(i):
                arun(backlog_case(ctx, case))
        index = 0
        for writers in (1, 2, 3, 5):
            for cancel in ([], [0], [1], [writers - 1], [1, 2], list(range(1, writers))):
                for later in (0, 2):
                    index += 1
                    if ctx.mine(index):
                        concurrent_publish_case(ctx, {"kind": "concurrent-publish", "writers": writers,
                                                      "cancel": sorted(set(c for c in cancel if 0 <= c < writers)), "later": later})
        # many cancelled in-flight publishes on ONE client object (per-message resources that leak on cancellation: slots
        # of an in-flight window, entries of a pending table): sizes around the round numbers such windows have
        for i, (writers, waves) in enumerate([(8, 3), (21, 1), (33, 2), (65, 1), (130, 1), (12, 10), (1030, 1)]):
            if ctx.mine(i + 2):
                for all_acked in (True, False):
                    concurrent_publish_case(ctx, {"kind": "concurrent-publish", "writers": writers, "waves": waves,
                                                  "cancel": list(range(writers)) if all_acked else list(range(0, writers, 2)),
                                                  "later": 4, "all_acked": all_acked})
        mix_ops = ["msg", "bin", "read", "write", "write-acked", "write-refused"]
        count = 0
        for length in range(2, ctx.pick(4, 5) + 1):
            for script in itertools.product(mix_ops, repeat=length):
                if "read" not in script and not any(op.startswith("write") for op in script):
                    continue
                count += 1
                if ctx.mine(count):
                    read_write_mix_case(ctx, [*script, "read", "write", "read", "read"])
        for i, delay in enumerate((1.0, 5.0, 9.0, 10.0, 11.0, 30.0, 60.0, 301.0)):
            if ctx.mine(i):
                hung_broker_disconnect_case(ctx, delay)
        index = 0
        for readers, messages, cancel in ((2, 2, []), (2, 3, []), (3, 2, []), (2, 1, []), (3, 5, [0]), (4, 4, [1, 2]), (2, 6, [1]),
                                          (8, 20, [3])):
            index += 1
            if ctx.mine(index):
                concurrent_reads_case(ctx, readers, messages, cancel)
        index = 0
        for level in ("hook", "client"):
            for r in (1, 2, 4, 5):
                for failing in itertools.combinations(range(5), r):
                    index += 1
                    if ctx.mine(index):
                        partial_subscribe_case(ctx, list(failing), level)
        for i, first_session in enumerate(("clean", "publish-only")):
            if ctx.mine(i + 4):
                multi_loop_client_case(ctx, first_session)
        for i, (with_disconnect, pending) in enumerate(((False, False), (True, False))):
            if ctx.mine(i):
                reconnect_after_error_case(ctx, with_disconnect, pending)
        for i, variant in enumerate(("publish-fails", "writer-cancelled", "publish-completes", "publish-stalls")):
            for acked in (0, 1):
                if ctx.mine(i * 2 + acked):
                    disconnect_during_publish_case(ctx, variant, acked)
        for i, n in enumerate((100, 1500, ctx.pick(3000, 40000))):
            if ctx.mine(i + 1):
                client_burst_case(ctx, n)
        # fake client scripts on the VLoop
        alphabet = ["msg", ("bin", b"\xff\xfe"), "err", "read", "yield", ("msg", "\ufeffbom")]
        count = 0
        for length in range(0, ctx.pick(5, 7) + 1):
            for script in itertools.product(alphabet, repeat=length):
                if not ctx.mine():
                    continue
                count += 1
                client_script_case(ctx, list(script))
                if length <= 3:
                    client_script_case(ctx, [*script, "disconnect"])
        ctx.exhaustive["client-scripts"] = count
        for i in range(ctx.pick(200, 40000) // ctx.shard_count):
            script = []
            for _ in range(rng.randint(1, 30)):
                roll = rng.random()
                if roll < 0.4:
                    script.append(("msg", rng.choice(["", "a;b", "x/y", "日本", "v", "\ufeff21.5", "\ufeff", "\u200bz", " lead"])))
                elif roll < 0.5:
                    script.append(("bin", rng.choice([b"\xff", b"\xc3\x28", b"\xf0\x9f\x98", b"ok\x80"])))
                elif roll < 0.55:
                    script.append("err")
                elif roll < 0.85:
                    script.append("read")
                else:
                    script.append("yield")
            if rng.random() < 0.5:
                script.insert(rng.randrange(len(script) + 1), "disconnect")
            client_script_case(ctx, script, rng.choice(PREFIXES[:6]))
        for i in range(ctx.pick(60, 2000) // ctx.shard_count + 1):
            lines = []
            for _ in range(rng.randint(1, 6)):
                head = gens.random_wellformed(rng)
                lines.append(";".join(str(x) for x in head) + ";" + rng.choice(["", "0", "5", "a;b", "x/y", "日本", "v v"]) + "\n")
            client_publish_case(ctx, rng.choice(PREFIXES), lines)
        if ctx.shard_index == (2 % ctx.shard_count):
            try:
                arun(two_clients_case(ctx, 2))
                if not ctx.quick:
                    arun(two_clients_case(ctx, 4))
            except OSError as err:
                ctx.skip("minibroker", f"cannot bind loopback: {err}")
        if not ctx.quick:
            try:
                for i in range(2):
                    arun(broker_case(ctx, 60, ctx.seed * 1000 + ctx.shard_index * 10 + i))
            except OSError as err:
                ctx.skip("minibroker", f"cannot bind loopback: {err}")
    reach.into(ctx)
    for clause in ("publish-arguments", "echo-roundtrip", "subscriptions-cover-all-commands", "fifo-exactly-once"):
        ctx.require(clause, 5)
