"""C14 - loading a persistence file fails only with the persistence read error.

Real files in a scratch directory, real aiofiles, the real loader: every byte-prefix of valid
files, every single-subtree mutation of valid records (native and legacy layout), arbitrary JSON
values at every nesting level, invalid UTF-8 / BOM / NUL / deep nesting / huge numbers; a
directory as path; a missing file must be created holding the current registry; an empty file
loads as an empty registry.  Also through Gateway.__aenter__.
"""

from __future__ import annotations

import copy
import itertools
import json
import os
import shutil

from .. import gens
from ..ctx import scratch_dir
from ..harness import run as arun
from ..reach import Reach

LEVEL = "exploration"
SHARDS = {"quick": 6, "thorough": 16}
RULE = ("every byte-prefix of valid native/legacy files (fixed + generated); every (path, replacement) single-subtree mutation "
        "with 26 replacement values; key deletion/rename/duplication at every level; arbitrary JSON values at top/node/child/"
        "values level; raw byte contents (invalid UTF-8, BOM, NUL, 100000-deep nesting, 5000-digit literals, NaN/Infinity, "
        "lone surrogates); path is a directory; missing file; empty file; a sample through Gateway.__aenter__; distinct = "
        "distinct file content; non-trivial = content that is not a valid registry file")
ASSUMES = ["unreadable-by-permission files cannot be produced when running as root; a directory path stands in for OSError"]
ANCHORS = ["aiomysensors.persistence:Persistence.load", "aiomysensors.model.node:NodeSchema.handle_compatibility",
           "aiomysensors.model.node:ChildSchema.handle_compatibility"]

NATIVE = {
    "0": {"battery_level": 0, "children": {}, "heartbeat": 0, "node_id": 0, "node_type": 18, "protocol_version": "2.2.0",
          "sketch_name": "", "sketch_version": "", "sleeping": False},
    "1": {"battery_level": 55, "children": {"1": {"child_id": 1, "child_type": 38, "description": "gps",
                                                   "values": {"49": "40.7,-73.9,12", "2": "1"}},
                                            "0": {"child_id": 0, "child_type": 6, "description": "", "values": {}}},
          "heartbeat": 7, "node_id": 1, "node_type": 17, "protocol_version": "2.3.2", "sketch_name": "GPS Sensor",
          "sketch_version": "1.0", "sleeping": True},
}
LEGACY = {
    "0": {"sensor_id": 0, "children": {}, "type": None, "sketch_name": None, "sketch_version": None, "battery_level": 0,
          "protocol_version": "2.2.0", "heartbeat": 0},
    "1": {"sensor_id": 1, "children": {"1": {"id": 1, "type": 38, "description": "", "values": {"49": "40.7,-73.9,12"}}},
          "type": 17, "sketch_name": "GPS Sensor", "sketch_version": "1.0", "battery_level": 0, "protocol_version": "2.3.2",
          "heartbeat": 0},
}
VALUES = [None, True, False, 0, -1, 1.5, 1e300, "", "x", [], [1], {}, {"a": 1}, 10**30, "1", "255", 256, {"1": 1}, [[]],
          {"0": {}}, "0", 101, -0.0, "2.x", "2.2-beta", [None], {"node_id": 1}]
RAW = [b"", b" ", b"\n", b"[", b"{", b"{}", b"[]", b"null", b"1", b'"x"', b"true", b"[" * 100000, b'{"a":' * 100000,
       b"\xff\xfe", b"\xef\xbb\xbf{}", b"\x00", b"{}\x00", b"nan", b"NaN", b"Infinity", b'{"1": NaN}', b"1e999",
       b'"\\ud800"', b'{"1":{"node_id":"\\ud800","node_type":1,"protocol_version":"1"}}',
       b'{"1":{"node_id":1,"node_type":1,"protocol_version":"\\ud800"}}',
       b'{"1":{"node_id":1e999,"node_type":1,"protocol_version":"1"}}',
       b'{"1":{"node_id":1,"node_type":1e999,"protocol_version":"1"}}',
       b'{"1":{"node_id":1,"node_type":' + b"9" * 5000 + b',"protocol_version":"1"}}',
       b'{"1":{"node_id":1,"node_type":1,"protocol_version":"1","sketch_name":"caf\xe9"}}',
       b'{"1":{"node_id":1,"node_type":1,"protocol_version":"1","children":{"x":{}}}}',
       b'{"1":{"node_id":1,"node_type":1,"protocol_version":"1","children":{"1":{"child_id":1,"child_type":1,"values":{"x":"1"}}}}}',
       b'{"1":{"sensor_id":0,"type":null,"protocol_version":""}}', b'{"1":{"sensor_id":0,"type":null,"protocol_version":[]}}',
       b'{"1":{"sensor_id":0,"type":null,"protocol_version":"2.x"}}', b'{"1":{"sensor_id":0,"type":null}}',
       "{\"1\":{\"node_id\":1,\"node_type\":1,\"protocol_version\":\"日本\"}}".encode()[:-4], b"{} {}", b'{"1": 5}',
       b'{"1": null}', b'{"1": []}', b'{"1": {"node_id": 1}}', b'{"1": {"node_id": 1, "node_type": 1, "protocol_version": "1", "x": 1}}']


def code_dictionary() -> list[str]:
    """String constants of the modules that read persistence files (the usual fuzzing dictionary): key names the loader
    gives a meaning to - also ones no valid file written by save() contains - are found here."""
    import types

    import aiomysensors.model.node as node_module
    import aiomysensors.persistence as persistence_module

    found: set[str] = set()

    def walk(code: types.CodeType) -> None:
        for const in code.co_consts:
            if isinstance(const, str) and 1 <= len(const) <= 24 and const.replace("_", "").isalnum():
                found.add(const)
            elif isinstance(const, types.CodeType):
                walk(const)
            elif isinstance(const, (tuple, frozenset)):
                for item in const:
                    if isinstance(item, str) and 1 <= len(item) <= 24 and item.replace("_", "").isalnum():
                        found.add(item)

    for module in (persistence_module, node_module):
        for value in vars(module).values():
            if isinstance(value, str) and 1 <= len(value) <= 24 and value.replace("_", "").isalnum():
                found.add(value)  # module-level constants such as key names
            elif isinstance(value, (tuple, list, set, frozenset)):
                found.update(v for v in value if isinstance(v, str) and 1 <= len(v) <= 24 and v.replace("_", "").isalnum())
            if isinstance(value, types.FunctionType) and value.__module__ == module.__name__:
                walk(value.__code__)
            elif isinstance(value, type) and value.__module__ == module.__name__:
                for attr_name, attr in vars(value).items():
                    found.add(attr_name) if attr_name.replace("_", "").isalnum() and not attr_name.startswith("__") else None
                    func = getattr(attr, "__func__", attr)
                    if isinstance(func, types.FunctionType):
                        walk(func.__code__)
                    for fn in vars(getattr(value, "_hooks", None) or {}) if False else ():
                        _ = fn
    return sorted(found)


def paths(obj, pre=()):
    yield pre
    if isinstance(obj, dict):
        for k, v in obj.items():
            yield from paths(v, (*pre, k))


def replaced(base, path, value):
    if not path:
        return value
    doc = copy.deepcopy(base)
    cur = doc
    for k in path[:-1]:
        cur = cur[k]
    cur[path[-1]] = value
    return doc


def documents(ctx):
    rng = ctx.rng
    for base_name, base in (("native", NATIVE), ("legacy", LEGACY)):
        for path in paths(base):
            for value in VALUES:
                doc = replaced(base, path, value)
                yield f"{base_name}:{'/'.join(path)}<-{value!r:.20}", json.dumps(doc).encode()
            if path:
                doc = copy.deepcopy(base)
                cur = doc
                for k in path[:-1]:
                    cur = cur[k]
                val = cur.pop(path[-1])
                yield f"{base_name}:del {'/'.join(path)}", json.dumps(doc).encode()
                for new_key in ("zzz", "node_id", "id", "type", "sensor_id", "child_id", "values", "children", ""):
                    d2 = copy.deepcopy(doc)
                    c2 = d2
                    for k in path[:-1]:
                        c2 = c2[k]
                    c2[new_key] = val
                    yield f"{base_name}:rename {'/'.join(path)}->{new_key}", json.dumps(d2).encode()
        text = json.dumps(base, indent=2, sort_keys=True).encode()
        for cut in range(len(text)):
            yield f"{base_name}:prefix{cut}", text[:cut]
    for i, raw in enumerate(RAW):
        yield f"raw{i}", raw
    # dictionary-guided shapes: every name the loader's code mentions as a key at the top level, in a node record and in
    # a child record, alone and in pairs, with well- and ill-shaped values
    words = code_dictionary()
    ctx.obs("code-dictionary-words", len(words))
    shapes = [None, True, 1, "x", [], [1], {}, {"1": 1}, {"1": NATIVE["1"]}, NATIVE]
    for word in words:
        for value in shapes:
            yield f"dict-top-{word}", json.dumps({word: value}).encode()
            yield f"dict-top-plus-{word}", json.dumps({**NATIVE, word: value}).encode()
            yield f"dict-node-{word}", json.dumps({"1": {**NATIVE["1"], word: value}}).encode()
            yield f"dict-child-{word}", json.dumps({"1": {**NATIVE["1"], "children": {"1": {**NATIVE["1"]["children"]["1"], word: value}}}}).encode()
    for a, b in itertools.combinations(words, 2):
        for value in ([], None, {"1": NATIVE["1"]}, 1):
            yield f"dict-pair-{a}-{b}", json.dumps({a: 1, b: value}).encode()
            yield f"dict-pair-{b}-{a}", json.dumps({b: 1, a: value}).encode()
    # nesting-depth ladder at every position a value can take (json.loads, schema hooks, copies may each have
    # their own recursion limit)
    for depth in (10, 50, 100, 200, 300, 400, 500, 600, 700, 800, 900, 1000, 1200, 1500, 2000, 3000, 5000, 20000):
        for opener, closer in (("[", "]"), ('{"a":', "}")):
            nested = opener * depth + "1" + closer * depth
            yield f"deep-top-{depth}{opener[0]}", nested.encode()
            yield f"deep-node-{depth}{opener[0]}", ('{"1":' + nested + "}").encode()
            yield f"deep-field-{depth}{opener[0]}", (
                '{"1":{"node_id":1,"node_type":1,"protocol_version":"1","sketch_name":' + nested + "}}").encode()
            yield f"deep-unknown-field-{depth}{opener[0]}", (
                '{"1":{"node_id":1,"node_type":1,"protocol_version":"1","extra":' + nested + "}}").encode()
            yield f"deep-child-{depth}{opener[0]}", (
                '{"1":{"node_id":1,"node_type":1,"protocol_version":"1","children":{"0":{"child_id":0,"child_type":1,'
                '"values":{"0":' + nested + "}}}}}").encode()
            yield f"deep-legacy-{depth}{opener[0]}", ('{"1":{"sensor_id":1,"type":null,"protocol_version":"1","children":'
                                                      + nested + "}}").encode()
    # random structural garbage
    def rand_json(depth):
        roll = rng.random()
        if depth > 3 or roll < 0.35:
            return rng.choice(VALUES[:11] + ["1", 1, 255])
        if roll < 0.55:
            return [rand_json(depth + 1) for _ in range(rng.randint(0, 3))]
        keys = ["node_id", "node_type", "protocol_version", "children", "child_id", "child_type", "values", "type", "id",
                "sensor_id", "sketch_name", "battery_level", "heartbeat", "sleeping", "description", "1", "0", "x"]
        return {rng.choice(keys): rand_json(depth + 1) for _ in range(rng.randint(0, 5))}

    for i in range(ctx.pick(1500, 200000)):
        yield f"rand{i}", json.dumps({str(rng.randint(0, 3)): rand_json(0) for _ in range(rng.randint(0, 3))}).encode()
    # byte-level corruption of valid files
    good = json.dumps(NATIVE, indent=2).encode()
    for i in range(ctx.pick(500, 80000)):
        data = bytearray(good)
        for _ in range(rng.randint(1, 3)):
            pos = rng.randrange(len(data))
            data[pos] = rng.choice([0, 0xFF, 0x80, 0x22, 0x7B, 0x7D, 0x5B, 0x2C, 0x3A, rng.randrange(256)])
        yield f"corrupt{i}", bytes(data)


FILE_NAMES = ["p.json", "p.json.gz", "p.gz", "p.bz2", "p.xz", "p.zip", "p.yaml", "p.pickle", "p.bak", "p", "p.json.bak",
              "p.JSON", "p.toml", "p.db", "p.txt", "p.xml", "p.msgpack", "p.json.tmp", "p.json~", ".p.json.swp", "p.jsonl"]


def container_documents(ctx):
    """The same documents inside the containers a loader might learn to open by file name or magic number (gzip, bz2,
    xz, zlib, zip, pickle): complete, cut at many positions, with flipped bytes.  For the loader as it stands they are
    just undecodable bytes; a loader that opens them must still map every failure to the persistence read error."""
    import bz2
    import gzip
    import io
    import lzma
    import pickle
    import zipfile
    import zlib

    rng = ctx.rng
    good = json.dumps(NATIVE, indent=2).encode()
    packed = {"gzip": gzip.compress(good, mtime=0), "bz2": bz2.compress(good), "xz": lzma.compress(good),
              "zlib": zlib.compress(good), "pickle": pickle.dumps(NATIVE), "gzip-of-garbage": gzip.compress(b"{\"1\": [", mtime=0),
              "gzip-empty": gzip.compress(b"", mtime=0)}
    buffer = io.BytesIO()
    with zipfile.ZipFile(buffer, "w") as archive:
        archive.writestr("p.json", good)
    packed["zip"] = buffer.getvalue()
    for kind, data in packed.items():
        yield f"{kind}:complete", data
        cuts = sorted({1, 2, 3, 4, 9, 10, 11, 18, len(data) // 2, len(data) - 9, len(data) - 8, len(data) - 4, len(data) - 1}
                      | {rng.randrange(1, len(data)) for _ in range(ctx.pick(6, 200))})
        for cut in cuts:
            if 0 < cut < len(data):
                yield f"{kind}:cut{cut}", data[:cut]
        for i in range(ctx.pick(12, 400)):
            damaged = bytearray(data)
            damaged[rng.randrange(len(damaged))] ^= rng.choice([1, 0x80, 0xFF])
            yield f"{kind}:flip{i}", bytes(damaged)
        yield f"{kind}:doubled", data + data
        yield f"{kind}:trailing-garbage", data + b"trailing"


def double_mutation_documents(ctx):
    """Two independent mutations in one file (a damaged child AND a damaged field of its node, two bad nodes, ...): loaders
    that repair or skip one kind of damage and go on meet the second one on their recovery path."""
    rng = ctx.rng
    for base_name, base in (("native", NATIVE), ("legacy", LEGACY)):
        all_paths = [p for p in paths(base) if p]
        child_paths = [p for p in all_paths if "children" in p and len(p) >= 3]
        for i in range(ctx.pick(500, 20000)):
            first = rng.choice(child_paths if i % 2 else all_paths)
            second = rng.choice(all_paths)
            if first == second or first[:len(second)] == second or second[:len(first)] == first:
                continue
            doc = replaced(base, first, rng.choice(VALUES))
            try:
                doc = replaced(doc, second, rng.choice(VALUES))
            except Exception:  # noqa: BLE001 - the first mutation removed the second path
                continue
            yield f"{base_name}:double {'/'.join(first)} + {'/'.join(second)}", json.dumps(doc).encode()


def duplicate_key_documents():
    """JSON TEXT with a key repeated inside one object - something no json.dumps of a Python dict produces, but a hand
    edit or a merge does - at every level: node ids, node fields, child ids, child fields, value types."""
    node = '{"node_id": 1, "node_type": 17, "protocol_version": "2.0", "children": {"0": {"child_id": 0, "child_type": 6, ' \
           '"description": "d", "values": {"0": "20.5"}}}, "sketch_name": "s", "sketch_version": "1", "battery_level": 5, ' \
           '"heartbeat": 0, "sleeping": false}'
    yield "dup:top-level-id", ('{"1": %s, "1": %s}' % (node, node)).encode()
    yield "dup:top-level-id-different", ('{"1": %s, "1": %s}' % (node, node.replace('"s"', '"other"'))).encode()
    for field in ('"node_id": 1', '"node_type": 17', '"protocol_version": "2.0"', '"sketch_name": "s"', '"battery_level": 5',
                  '"sleeping": false', '"child_id": 0', '"child_type": 6', '"description": "d"', '"0": "20.5"'):
        yield f"dup:{field}", ('{"1": %s}' % node.replace(field, field + ", " + field, 1)).encode()
        key = field.split(":")[0]
        yield f"dup-null:{field}", ('{"1": %s}' % node.replace(field, field + ", " + key + ": null", 1)).encode()
    yield "dup:children-object", ('{"1": %s}' % node.replace('"children": {', '"children": {}, "children": {', 1)).encode()
    yield "dup:child-id", ('{"1": %s}' % node.replace('"0": {"child_id"', '"0": {}, "0": {"child_id"', 1)).encode()
    yield "dup:values-object", ('{"1": %s}' % node.replace('"values": {', '"values": {}, "values": {', 1)).encode()
    yield "dup:legacy", b'{"1": {"sensor_id": 1, "sensor_id": 1, "type": 17, "type": 18, "protocol_version": "2.0", "children": {}}}'
    yield "dup:empty-key", b'{"": {}, "": {}}'
    yield "dup:many", ("{" + ", ".join('"1": ' + node for _ in range(50)) + "}").encode()


async def load_file(ctx, workdir: str, name: str, content: bytes, via_gateway: bool, file_name: str = "p.json",
                    explicit_path: bool = False) -> None:
    from aiomysensors.exceptions import PersistenceReadError
    from aiomysensors.persistence import Persistence

    path = os.path.join(workdir, file_name)
    with open(path, "wb") as fil:
        fil.write(content)
    case = {"name": name, "content_hex": content.hex() if len(content) < 4000 else None, "via_gateway": via_gateway,
            "content_len": len(content), "file_name": file_name, "explicit_path": explicit_path,
            "config_extra": dict(__import__("vf.harness", fromlist=["CONFIG_EXTRA"]).CONFIG_EXTRA)}
    try:
        if via_gateway:
            from ..harness import new_gateway

            gateway, _transport = new_gateway("2.0", persistence_file=path)
            try:
                await gateway.__aenter__()
            finally:
                if gateway.persistence is not None:
                    try:
                        await gateway.persistence.stop()
                    except BaseException as exc:  # noqa: BLE001  cleanup only; C16 judges stop()
                        ctx.obs("cleanup-stop-raised:" + type(exc).__name__)
        elif explicit_path:
            await Persistence({}, os.path.join(workdir, "configured-elsewhere.json")).load(path)
        else:
            await Persistence({}, path).load()
    except PersistenceReadError:
        outcome = "read-error"
    except Exception as exc:  # noqa: BLE001
        outcome = "foreign"
        cls = type(exc).__name__
        key = "load-leaks-" + cls
        ctx.violation(key, f"load({name}) raised {cls}: {exc!s:.140}", case)
    else:
        outcome = "loaded"
    ctx.clause("load-exception-class")
    ctx.obs("outcome:" + outcome)
    ctx.obs("file-name:" + file_name)
    if path != os.path.join(workdir, "p.json"):
        os.unlink(path)
    ctx.case(content, nontrivial=outcome != "loaded", sample={"name": name, "outcome": outcome,
                                                              "content": content[:120].decode("utf-8", "replace")})


async def special_cases(ctx, workdir: str) -> None:
    from aiomysensors.exceptions import PersistenceReadError
    from aiomysensors.model.node import Node
    from aiomysensors.persistence import Persistence

    # missing file: created holding the current registry
    path = os.path.join(workdir, "missing.json")
    if os.path.exists(path):
        os.unlink(path)
    nodes = {3: Node(3, 17, "2.0")}
    ctx.clause("missing-file-created")
    try:
        await Persistence(nodes, path).load()
    except Exception as exc:  # noqa: BLE001
        ctx.violation("missing-file-raises", f"{type(exc).__name__}: {exc!s:.100}", {"name": "missing"})
    else:
        if not os.path.exists(path):
            ctx.violation("missing-file-not-created", "load of a missing file did not create it", {"name": "missing"})
        else:
            again: dict = {}
            await Persistence(again, path).load()
            if sorted(again) != [3] or sorted(nodes) != [3]:
                ctx.violation("missing-file-wrong-content", f"created file holds {sorted(again)}", {"name": "missing"})
    # empty file loads as empty registry
    path = os.path.join(workdir, "empty.json")
    open(path, "w").close()
    loaded: dict = {}
    ctx.clause("empty-file-loads-empty")
    try:
        await Persistence(loaded, path).load()
    except Exception as exc:  # noqa: BLE001
        ctx.violation("empty-file-raises", f"{type(exc).__name__}: {exc!s:.100}", {"name": "empty"})
    else:
        if loaded:
            ctx.violation("empty-file-not-empty", f"loaded {loaded}", {"name": "empty"})
    # path is a directory -> OSError -> read error
    ctx.clause("directory-path")
    try:
        await Persistence({}, workdir).load()
    except PersistenceReadError:
        pass
    except Exception as exc:  # noqa: BLE001
        ctx.violation("load-leaks-" + type(exc).__name__, f"directory as path: {type(exc).__name__}: {exc!s:.100}",
                      {"name": "directory"})
    else:
        ctx.violation("directory-loaded", "a directory loaded as a registry", {"name": "directory"})
    ctx.case(b"special", nontrivial=True)


def run_case(ctx, case: dict) -> None:
    from .. import harness

    workdir = str(scratch_dir("c14"))
    harness.CONFIG_EXTRA.clear()
    harness.CONFIG_EXTRA.update(case.get("config_extra") or {})
    try:
        if case.get("content_hex") is not None:
            arun(load_file(ctx, workdir, case["name"], bytes.fromhex(case["content_hex"]), case.get("via_gateway", False),
                          case.get("file_name", "p.json"), case.get("explicit_path", False)))
        else:
            arun(special_cases(ctx, workdir))
    finally:
        harness.CONFIG_EXTRA.clear()
        shutil.rmtree(workdir, ignore_errors=True)


def run(ctx) -> None:
    workdir = str(scratch_dir("c14"))
    try:
        with Reach(ANCHORS) as reach:
            for index, (name, content) in enumerate(documents(ctx)):
                if ctx.mine(index):
                    # every 3rd document sits under another file name (a loader may choose a format by the name)
                    file_name = FILE_NAMES[index // 3 % len(FILE_NAMES)] if index % 3 == 0 else "p.json"
                    arun(load_file(ctx, workdir, name, content, via_gateway=(index % 25 == 0), file_name=file_name,
                                   explicit_path=(index % 25 == 1)))
            for index, (name, content) in enumerate(double_mutation_documents(ctx)):
                if ctx.mine(index):
                    arun(load_file(ctx, workdir, name, content, via_gateway=(index % 4 == 0)))
                    ctx.clause("double-mutation")
            # every Config option this harness does not know, set to a non-default value: whatever it makes the loader do
            # with damaged files (skip, repair, convert), only the persistence read error may come out - the whole corpus of
            # single and double mutations again, through a Gateway built with the option
            from .. import harness

            options = harness.unknown_options()
            ctx.obs("unknown-config-options", len(options))
            for extra in options:
                harness.CONFIG_EXTRA.clear()
                harness.CONFIG_EXTRA.update(extra)
                try:
                    for index, (name, content) in enumerate(itertools.chain(documents(ctx), double_mutation_documents(ctx),
                                                                            duplicate_key_documents())):
                        if name.split(":")[-1].startswith("prefix") and index % 5:
                            continue
                        if ctx.mine(index):
                            arun(load_file(ctx, workdir, f"{name} [options {extra}]", content, via_gateway=True))
                            ctx.clause("corpus-under-unknown-option")
                finally:
                    harness.CONFIG_EXTRA.clear()
            for index, (name, content) in enumerate(duplicate_key_documents()):
                if ctx.mine(index):
                    arun(load_file(ctx, workdir, name, content, via_gateway=(index % 5 == 0)))
                    ctx.clause("duplicate-key-text")
            for index, (name, content) in enumerate(container_documents(ctx)):
                if ctx.mine(index):
                    suffix = {"gzip": ".gz", "bz2": ".bz2", "xz": ".xz", "zlib": ".z", "zip": ".zip", "pickle": ".pickle"}[
                        name.split(":")[0].split("-")[0]]
                    for file_name in ("p.json", "p.json" + suffix, "p" + suffix):
                        arun(load_file(ctx, workdir, name, content, via_gateway=(index % 10 == 0), file_name=file_name))
                        ctx.clause("container-content")
            if ctx.shard_index == 0:
                arun(special_cases(ctx, workdir))
        reach.into(ctx)
    finally:
        shutil.rmtree(workdir, ignore_errors=True)
    ctx.require("load-exception-class", 200)
