"""C19 - a newer protocol version handles the older protocol's message types identically.

Differential lockstep of TWO REAL gateways (the older version is the reference; no model): the
same history is fed to both, and per step the outcome (yield fields / error class and the ids it
names), the writes and the registry must be equal.  Exclusions exactly as stated: across 1.x->2.x
the history is cut at the first Missing* outcome or gateway-ready message; for pairs straddling
2.2 the heartbeat response is checked under the translation "22 in 2.0/2.1 == 22 then 32 in 2.2".
"""

from __future__ import annotations

import itertools

from .. import gens, spec
from ..harness import VERSIONS, Stepper, exc_info, fields_of, new_gateway
from ..harness import run as arun
from ..lockstep import real_snapshot, split_line
from ..reach import Reach

LEVEL = "exploration"
SHARDS = {"quick": 8, "thorough": 16}
RULE = ("all 10 ordered version pairs; every presentation/set/req/internal/stream type number of the older protocol once in "
        "each of 4 controller states (node unknown / known / known with child / known, sleeping, with parked command), "
        "all 2-step histories over a 34-symbol alphabet, and seeded random histories (length <= 60) mixing received "
        "lines, send calls with/without buffering, reboot flags and restored sleeping nodes; payload pools carry "
        "blank-padded, ';'-bearing, non-ASCII and numeric-boundary variants; distinct = distinct (pair, history); "
        "non-trivial = history with >= 2 steps")
ASSUMES = ["version reports are not generated (they would switch both gateways to the same protocol)",
           "error text and UnsupportedMessageError.protocol_version are not compared (they embed the version)",
           "time replies are compared up to 2 seconds"]
ANCHORS = ["aiomysensors.model.protocol:get_incoming_message_handler",
           "aiomysensors.model.protocol:get_outgoing_message_handler",
           "aiomysensors.model.protocol.protocol_20:IncomingMessageHandler.handle_i_heartbeat_response",
           "aiomysensors.model.protocol.protocol_22:IncomingMessageHandler.handle_i_heartbeat_response",
           "aiomysensors.model.protocol.protocol_22:IncomingMessageHandler.handle_i_pre_sleep_notification"]

PRES_MAX = {"1.4": 25, "1.5": 35, "2.0": 39, "2.1": 39, "2.2": 39}
SETREQ_MAX = {"1.4": 39, "1.5": 46, "2.0": 56, "2.1": 56, "2.2": 56}
PAIRS = [(a, b) for i, a in enumerate(VERSIONS) for b in VERSIONS[i + 1:]]
PAYLOADS = ["", "0", "1", "55", "100", "101", "-3", "abc", " padded ", "  lead", "trail  ", "a;b", "x y", "日本", "1.5",
            "7", " 7", "7 ", "nan", "inf", "2.2.0", "\tt", "0x10", "1e3", "9" * 30]


def outcome_of(kind: str, value) -> tuple:
    if kind == "yield":
        return ("yield", fields_of(value))
    if kind == "ok":
        return ("ok",)
    info = exc_info(value)
    return ("error", info["class"], info.get("node_id"), info.get("child_id"))


def writes_equal(a: list[str], b: list[str]) -> bool:
    if len(a) != len(b):
        return False
    for x, y in zip(sorted(a), sorted(b)):
        if x == y:
            continue
        px, py = split_line(x), split_line(y)
        if px and py and px[:5] == py[:5] and px[2] == 3 and px[4] == spec.I_TIME:
            try:
                if abs(int(px[5]) - int(py[5])) <= 2:
                    continue
            except ValueError:
                pass
        return False
    return True


async def apply(gateway, transport, stepper, op: list) -> tuple:
    from aiomysensors.model.message import Message
    from aiomysensors.model.node import Child, Node

    kind = op[0]
    if kind == "rx":
        k, v = await stepper.rx(op[1])
        return outcome_of(k, v)
    if kind == "tx":
        k, v = await stepper.tx(Message(*op[1]), message_buffer=op[2])
        return outcome_of(k, v)
    if kind == "flag":
        node = gateway.nodes.get(op[1])
        if node is not None:
            setattr(node, op[2], op[3])
        return ("flag",)
    if kind == "restore":
        data = op[2]
        gateway.nodes[op[1]] = Node(op[1], 17, "2.0", sleeping=data.get("sleeping", False), children={
            int(c): Child(int(c), 3, values={int(k): v for k, v in vals.items()}) for c, vals in data["children"].items()})
        return ("restore",)
    raise ValueError(kind)


async def diff_case(ctx, case: dict) -> None:
    older, newer = case["pair"]
    cross_major = older.startswith("1") and newer.startswith("2")
    straddle = newer == "2.2" and older in ("2.0", "2.1")
    from .. import harness

    with harness.options(case["config_extra"] if "config_extra" in case else dict(harness.CONFIG_EXTRA)):
        g1, t1 = new_gateway(None if case.get("report_first") else older)
        g2, t2 = new_gateway(None if case.get("report_first") else newer)
    s1, s2 = Stepper(g1, t1), Stepper(g2, t2)
    if case.get("report_first"):
        # each gateway learns ITS version from its own first report (the one step that necessarily differs); what the
        # controller writes in reaction to it is compared like every other step
        texts = {"1.4": "1.4.1", "1.5": "1.5.0", "2.0": "2.0.0", "2.1": "2.1.1", "2.2": "2.2.0"}
        r1 = await s1.rx(f"0;255;3;0;2;{texts[older]}\n")
        r2 = await s2.rx(f"0;255;3;0;2;{texts[newer]}\n")
        w1, w2 = t1.take_writes(), t2.take_writes()
        ctx.clause("first-report-step")
        both_2x = older.startswith("2") and newer.startswith("2")
        if (r1[0], w1) != (r2[0], w2) and (both_2x or (older.startswith("1") and newer.startswith("1"))):
            ctx.violation("writes-differ", f"{older} vs {newer}: the first version report ended {r1[0]} / {r2[0]} and wrote "
                                           f"{w1} vs {w2}", case)
    steps_done = 0
    for index, op in enumerate(case["steps"]):
        if op[0] == "rx":
            parsed = split_line(op[1])
            if parsed and cross_major and parsed[2] == 3 and parsed[4] == spec.I_GATEWAY_READY:
                ctx.obs("cut:gateway-ready")
                break
        o1 = await apply(g1, t1, s1, op)
        is_hb = False
        if op[0] == "rx":
            parsed = split_line(op[1])
            is_hb = bool(parsed and parsed[2] == 3 and parsed[4] == spec.I_HEARTBEAT_RESPONSE)
        sleeping_before = {nid: node.sleeping for nid, node in g2.nodes.items()} if (straddle and is_hb) else {}
        o2 = await apply(g2, t2, s2, op)
        w1, w2 = t1.take_writes(), t2.take_writes()
        if straddle and is_hb and o2[0] == "yield":
            # the stated exception itself: in 2.2 the heartbeat response neither marks the node sleeping nor releases
            ctx.clause("heartbeat-is-no-wake-in-2.2")
            released = [w for w in w2 if (split_line(w) or (0, 0, -1))[2] == 1]
            changed = [nid for nid, node in g2.nodes.items() if node.sleeping != sleeping_before.get(nid, node.sleeping)]
            if released or changed:
                ctx.violation("heartbeat-acts-as-wake-in-2.2",
                              f"{older} vs {newer} step {index} {op!r:.60}: under 2.2 the heartbeat response released {released} "
                              f"/ changed the sleeping flag of {changed}", case)
                break
        if straddle and is_hb and o1[0] == "yield" and o2[0] == "yield":
            # translation: 22 in 2.0/2.1 == 22 then 32 in 2.2 (the extra yield is ignored)
            parsed = split_line(op[1])
            extra = await apply(g2, t2, s2, ["rx", f"{parsed[0]};255;3;0;{spec.I_PRE_SLEEP};\n"])
            w2 += t2.take_writes()
            ctx.clause("heartbeat-translation")
            if extra[0] != "yield":
                ctx.violation("pre-sleep-after-heartbeat-failed", f"2.2 pre-sleep notification after heartbeat: {extra}", case)
        if o1[0] == "error" and o1[1] in ("MissingNodeError", "MissingChildError") and cross_major:
            ctx.obs("cut:missing-node-or-child")
            break
        steps_done += 1
        ctx.clause("step-compared")
        if o1 != o2:
            ctx.violation(classify(op, o1, o2, older, newer),
                          f"{older} vs {newer} step {index} {op!r:.90}: outcome {o1!r:.100} vs {o2!r:.100}", case)
            break
        if not writes_equal(w1, w2):
            ctx.violation("writes-differ", f"{older} vs {newer} step {index} {op!r:.90}: writes {w1} vs {w2}", case)
            break
        r1, r2 = real_snapshot(g1), real_snapshot(g2)
        if r1 != r2:
            ctx.violation("registry-differs", f"{older} vs {newer} step {index} {op!r:.90}: registry {r1!r:.150} vs {r2!r:.150}",
                          case)
            break
    await s1.close()
    await s2.close()
    ctx.case((tuple(case["pair"]), tuple(map(repr, case["steps"]))), nontrivial=steps_done >= 2,
             sample=dict(case, steps=case["steps"][:10]))


def classify(op, o1, o2, older, newer) -> str:
    if "UnsupportedMessageError" in (o1[1:2] + o2[1:2]):
        return "type-support-differs"
    if o1[0] != o2[0]:
        return "outcome-kind-differs"
    if o1[0] == "error":
        return "error-class-or-id-differs"
    return "yield-fields-differ"


def symbols_for(older: str, newer: str) -> list[list]:
    """Every type number of the older protocol once, per command (heartbeat handled by translation)."""
    out = []
    for t in range(0, PRES_MAX[older] + 1):
        out.append(["rx", f"1;255;0;0;{t};2.0\n"])
        out.append(["rx", f"1;3;0;0;{t}; desc \n"])
    for t in range(0, SETREQ_MAX[older] + 1):
        out.append(["rx", f"1;0;1;0;{t};{PAYLOADS[t % len(PAYLOADS)]}\n"])
        out.append(["rx", f"1;0;2;0;{t};\n"])
        out.append(["tx", [1, 0, 1, 0, t, f"s{t}"], True])
    for t in range(0, spec.INTERNAL_MAX[older] + 1):
        if t == spec.I_VERSION:
            continue
        for p in ("", "55", " padded ", "abc", "7"):
            child = 255
            out.append(["rx", f"1;{child};3;0;{t};{p}\n"])
        out.append(["tx", [1, 255, 3, 0, t, "x"], True])
        out.append(["tx", [1, 255, 3, 0, t, "x"], False])
    out.append(["rx", "255;255;3;0;3;\n"])
    out.append(["rx", "255;4;3;0;3;\n"])
    for t in range(0, 6):
        out.append(["rx", f"1;255;4;0;{t};fw\n"])
        out.append(["tx", [1, 255, 4, 0, t, "fw"], True])
    out.append(["tx", [1, 0, 2, 0, 2, ""], True])
    out.append(["tx", [1, 255, 0, 0, 17, "2.0"], True])
    return out


STATES = {
    "unknown": [],
    "known": [["rx", "1;255;0;0;17;2.0\n"]],
    "child": [["rx", "1;255;0;0;17;2.0\n"], ["rx", "1;0;0;0;3;c\n"], ["rx", "1;0;1;0;2;1\n"]],
    "sleeping-parked": [["restore", 1, {"sleeping": True, "children": {"0": {"2": "1"}}}],
                        ["tx", [1, 0, 1, 0, 2, "parked"], True], ["flag", 1, "reboot", True]],
}
SMALL = [
    "1;255;0;0;17;2.0", "1;0;0;0;3; c ", "1;0;1;0;2;1", "1;0;2;0;2;", "1;255;3;0;0;55", "1;255;3;0;0;abc",
    "1;255;3;0;11; name ", "1;255;3;0;12;1.0", "1;255;3;0;6;", "1;255;3;0;1;", "255;255;3;0;3;", "1;255;4;0;0;x",
    "1;255;4;0;9;x", "2;0;1;0;0;1", "1;9;1;0;0;1", "1;255;3;0;14;", "1;255;3;0;9;log", "1;255;3;0;13;",
    "1;255;3;0;22;7", "1;255;3;0;22;x", "9;255;3;0;22;x", "1;255;3;0;21;", "9;255;3;0;21;", "1;255;3;0;19;",
    "1;255;3;0;15;", "1;255;3;0;18;", "9;255;3;0;0;abc", "1;255;3;0;5;1", "1;255;3;0;7;", "1;255;3;0;10;",
]
SMALL_TX = [["tx", [1, 0, 1, 0, 2, "a"], True], ["tx", [1, 0, 1, 0, 2, "b"], False], ["flag", 1, "reboot", True],
            ["tx", [9, 0, 1, 0, 2, "c"], True]]


def with_ack(op: list) -> list:
    """The same received line with the ack flag set (an echo / acknowledgement request): no handler may depend on it."""
    if op[0] != "rx":
        return op
    parts = op[1].split(";", 5)
    if len(parts) < 6:
        return op
    parts[3] = "1"
    return ["rx", ";".join(parts)]


def exists_in(older: str, op: list) -> bool:
    if op[0] != "rx":
        return True
    parsed = split_line(op[1])
    if not parsed:
        return False
    _n, _c, cmd, _a, t, _p = parsed
    if cmd == 3:
        return 0 <= t <= spec.INTERNAL_MAX[older] and t != spec.I_VERSION
    if cmd == 4:
        return 0 <= t <= 5
    return True


def cases(ctx):
    rng = ctx.rng
    count = 0
    for older, newer in PAIRS:
        syms = symbols_for(older, newer)
        for state, prefix in STATES.items():
            for sym in syms:
                if ctx.mine():
                    count += 1
                    yield {"pair": [older, newer], "steps": prefix + [sym, ["rx", "1;0;1;0;2;probe\n"]]}
                    if sym[0] == "rx":
                        count += 1
                        yield {"pair": [older, newer], "steps": prefix + [with_ack(sym), ["rx", "1;0;1;0;2;probe\n"]]}
        alphabet = [op for op in ([["rx", s + "\n"] for s in SMALL] + SMALL_TX) if exists_in(older, op)]
        for k, (a, b) in enumerate(itertools.product(alphabet, repeat=2)):
            if ctx.mine():
                count += 1
                if k % 4 == 1:
                    a = with_ack(a)
                elif k % 4 == 2:
                    b = with_ack(b)
                yield {"pair": [older, newer], "steps": STATES["child"][:2] + [a, b, ["rx", f"1;0;2;{k // 4 % 2};2;\n"]]}
    ctx.exhaustive["type-table-and-2-step-cases"] = count
    from ..harness import unknown_options
    from ..histories import HistoryGen, dictionary_payloads

    # the same comparison with every Config option this harness does not know set to a non-default value (both gateways)
    for extra in unknown_options():
        for older, newer in PAIRS:
            syms = symbols_for(older, newer)
            for state, prefix in STATES.items():
                if not ctx.mine():
                    continue
                steps = list(prefix) + [["rx", "0;255;3;0;2;" + {"1.4": "1.4", "1.5": "1.5.1", "2.0": "2.0.0", "2.1": "2.1.1",
                                                                   "2.2": "2.2.0"}[older] + "\n"]] if False else list(prefix)
                yield {"pair": [older, newer], "steps": steps + syms[:: 7] + [["rx", "1;0;1;0;2;probe\n"]], "config_extra": extra}
                yield {"pair": [older, newer], "steps": steps + syms[3:: 11], "config_extra": extra, "report_first": True}

    # dictionary payloads (string constants of the handler modules) as the value of every value type of the older protocol
    candidates = [c for c in dictionary_payloads()[: ctx.pick(80, 600)] if ";" not in c]
    for older, newer in PAIRS:
        for start in range(0, len(candidates), 10):
            if not ctx.mine():
                continue
            steps = list(STATES["child"][:2])
            for payload in candidates[start:start + 10]:
                for t in range(0, SETREQ_MAX[older] + 1):
                    steps.append(["rx", f"1;0;1;0;{t};{payload}\n"])
                    steps.append(["rx", f"1;0;2;0;{t};\n"])
            yield {"pair": [older, newer], "steps": steps}

    for older, newer in PAIRS:  # gateways that learn their version from a report (default configuration)
        if ctx.mine():
            yield {"pair": [older, newer], "steps": list(STATES["child"]) + symbols_for(older, newer)[5:: 9], "report_first": True}
    for i in range(ctx.pick(1500, 600000) // ctx.shard_count):
        older, newer = PAIRS[i % len(PAIRS)]
        gen = HistoryGen(rng, older)
        gen.wide = i % 4 == 0
        steps = list(rng.choice(list(STATES.values())))
        for _ in range(rng.choice([5, 20, 60])):
            roll = rng.random()
            if roll < 0.2:
                steps.append(gen.tx_op())
            elif roll < 0.25:
                steps.append(["flag", rng.choice([1, 2]), "reboot", rng.random() < 0.5])
            elif roll < 0.3:
                steps.append(["tx", [rng.choice([1, 2, 9]), 255, 3, 0, rng.randint(0, spec.INTERNAL_MAX[older]),
                                     rng.choice(PAYLOADS)], rng.random() < 0.5])
            else:
                for _try in range(20):
                    line = gen.rx_line()
                    head, _, _ = line.rpartition(";")
                    if rng.random() < 0.5:
                        line = head + ";" + rng.choice(PAYLOADS)
                    op = ["rx", line + "\n"]
                    if rng.random() < 0.15:
                        op = with_ack(op)
                    parsed = split_line(op[1])
                    if parsed and not (parsed[0] == 0 and parsed[1] == 255 and parsed[2] == 0) and exists_in(older, op):
                        steps.append(op)
                        break
        yield {"pair": [older, newer], "steps": steps}


def run_case(ctx, case: dict) -> None:
    arun(diff_case(ctx, case))


def run(ctx) -> None:
    with Reach(ANCHORS) as reach:
        for case in cases(ctx):
            arun(diff_case(ctx, case))
    reach.into(ctx)
    ctx.require("step-compared", 1000)
    ctx.require("heartbeat-translation", 10)
