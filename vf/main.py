"""Driver:  python -m vf.main <Cxx> [--tier quick|thorough] [--replay file].

Internal:  --shard i/n --out file   (one worker of a sharded run).
"""

from __future__ import annotations

import argparse
import faulthandler
import importlib
import json
import os
from pathlib import Path
import subprocess
import sys
import time
import traceback

from .ctx import VERIF_DIR, Ctx, h64, jsonable, write_json
from . import findings

WATCHDOG = {"quick": 600, "thorough": 3600}


def load_module(pid: str):
    return importlib.import_module(f"vf.props.{pid.lower()}")


def check_tree() -> str | None:
    """The code under test must come from $VERIF_REPO's working tree."""
    repo = os.environ.get("VERIF_REPO", "/repo")
    try:
        import aiomysensors
    except Exception as err:  # noqa: BLE001
        return f"import of aiomysensors failed: {type(err).__name__}: {err}"
    path = os.path.realpath(aiomysensors.__file__)
    want = os.path.realpath(os.path.join(repo, "src")) + os.sep
    if not path.startswith(want):
        return f"aiomysensors imported from {path}, not from {want}"
    return None


def configure_logging(ctx: Ctx) -> None:
    """Log level is a configuration of the library (its CLI runs at DEBUG): odd shards and unsharded runs execute with
    the `aiomysensors` logger at DEBUG and a sink that formats every record, so code that only runs when debug logging
    is enabled is exercised too.  Nothing is printed."""
    import logging

    class FormattingSink(logging.Handler):
        def emit(self, record: logging.LogRecord) -> None:
            record.getMessage()

    logger = logging.getLogger("aiomysensors")
    logger.handlers[:] = [FormattingSink()]
    logger.propagate = False
    debug = ctx.shard_count == 1 or ctx.shard_index % 2 == 1
    logger.setLevel(logging.DEBUG if debug else logging.WARNING)
    ctx.obs("log-level:" + ("DEBUG" if debug else "WARNING"))
    if debug:
        # applications and test suites run with `-W error`: a warning ISSUED BY the library's own modules is then an
        # exception inside the library call (third-party import-time warnings are not touched)
        import warnings

        warnings.filterwarnings("error", module=r"aiomysensors(\..*)?")
        ctx.obs("warnings-from-the-library-are-errors")


def run_shard(pid: str, tier: str, seed: int, shard: tuple[int, int], out: str) -> int:
    ctx = Ctx(pid, tier, seed, shard)
    configure_logging(ctx)
    module = load_module(pid)
    try:
        module.run(ctx)
    except (KeyboardInterrupt, SystemExit):
        raise
    except BaseException:  # noqa: BLE001  harness failure: never a VIOLATION
        ctx.inconclusive.append("harness error: " + traceback.format_exc()[-1500:])
    write_json(Path(out), ctx.dump_partial())
    return 0


def main(argv: list[str] | None = None) -> int:
    parser = argparse.ArgumentParser()
    parser.add_argument("pid")
    parser.add_argument("--tier", default=os.environ.get("VERIF_TIER") or "quick", choices=["quick", "thorough"])
    parser.add_argument("--replay")
    parser.add_argument("--shard")
    parser.add_argument("--out")
    parser.add_argument("--jobs", type=int, default=0)
    args = parser.parse_args(argv)
    pid = args.pid.upper()
    try:
        seed = int(os.environ.get("VERIF_SEED") or 0)
    except ValueError:
        seed = h64(os.environ.get("VERIF_SEED")) % (2**31)

    faulthandler.enable()
    faulthandler.dump_traceback_later(WATCHDOG[args.tier], exit=False)

    problem = check_tree()
    if problem:
        print(f"INCONCLUSIVE property={pid} reason={problem}")
        return 2

    if args.shard:
        index, count = (int(x) for x in args.shard.split("/"))
        return run_shard(pid, args.tier, seed, (index, count), args.out)

    module = load_module(pid)
    t0 = time.monotonic()
    ctx = Ctx(pid, args.tier, seed)

    if args.replay:
        return replay(module, ctx, args.replay)

    shards = getattr(module, "SHARDS", {"quick": 1, "thorough": 1})[args.tier]
    if args.jobs:
        shards = args.jobs
    shards = max(1, min(shards, os.cpu_count() or 1))
    if shards == 1:
        configure_logging(ctx)
        try:
            module.run(ctx)
        except (KeyboardInterrupt, SystemExit):
            raise
        except BaseException:  # noqa: BLE001
            ctx.inconclusive.append("harness error: " + traceback.format_exc()[-1500:])
    else:
        run_sharded(ctx, shards, args.tier)
    return finish(module, ctx, time.monotonic() - t0)


def run_sharded(ctx: Ctx, shards: int, tier: str) -> None:
    scratch = Path(os.environ.get("VERIF_SCRATCH") or "/tmp") / f"vf-shards-{ctx.pid}-{os.getpid()}"
    scratch.mkdir(parents=True, exist_ok=True)
    procs = []
    for index in range(shards):
        out = scratch / f"shard{index}.json"
        cmd = [sys.executable, "-X", "faulthandler", "-m", "vf.main", ctx.pid, "--tier", tier,
               "--shard", f"{index}/{shards}", "--out", str(out)]
        procs.append((index, out, subprocess.Popen(cmd, cwd=str(VERIF_DIR), stdout=subprocess.PIPE,
                                                   stderr=subprocess.STDOUT, text=True)))
    deadline = time.monotonic() + WATCHDOG[tier]
    for index, out, proc in procs:
        try:
            output, _ = proc.communicate(timeout=max(1, deadline - time.monotonic()))
        except subprocess.TimeoutExpired:
            proc.kill()
            output, _ = proc.communicate()
            ctx.inconclusive.append(f"shard {index} hit the wall-clock watchdog")
            continue
        if proc.returncode != 0 or not out.exists():
            ctx.inconclusive.append(f"shard {index} exited {proc.returncode}: {output[-800:]}")
            continue
        ctx.merge_partial(json.loads(out.read_text()))
        out.unlink()
    try:
        scratch.rmdir()
    except OSError:
        pass


def replay(module, ctx: Ctx, path: str) -> int:
    data = json.loads(Path(path).read_text())
    case = data["case"]
    if not hasattr(module, "run_case"):
        print(f"INCONCLUSIVE property={ctx.pid} reason=no replay support")
        return 2
    module.run_case(ctx, case)
    if ctx.violations:
        for vio in ctx.violations:
            print(f"REPLAYED VIOLATION property={ctx.pid} key={vio['key']} {vio['what']}")
        return 1
    print(f"replay of {path}: no violation observed on this tree")
    return 0


def finish(module, ctx: Ctx, wall: float) -> int:
    pid = ctx.pid
    level = getattr(module, "LEVEL", "exploration")
    open_keys, fixed_keys = findings.load(pid)

    # requirements -> inconclusive
    for clause, minimum in ctx.requirements.items():
        if ctx.clauses.get(clause, 0) < minimum:
            ctx.inconclusive.append(
                f"clause '{clause}' evaluated {ctx.clauses.get(clause, 0)} times, needs >= {minimum}")
    if ctx.evaluations == 0 and not ctx.inconclusive:
        ctx.inconclusive.append("no case was evaluated")

    known_seen: dict[str, str] = {}
    new: dict[str, dict] = {}
    for vio in ctx.violations:
        if vio["key"] in open_keys:
            known_seen.setdefault(vio["key"], vio["what"])
        else:
            new.setdefault(vio["key"], vio)

    # runs against scratch trees (seed matrix, mutation analysis) redirect their outputs so that evidence/ only ever
    # holds what was observed on /repo itself
    out_root = Path(os.environ.get("VERIF_OUT_DIR") or VERIF_DIR)
    (out_root / "evidence").mkdir(parents=True, exist_ok=True)
    (out_root / "replays").mkdir(parents=True, exist_ok=True)
    replay_paths = {}
    for key, vio in new.items():
        name = f"{pid}-{h64((key, vio['case'])):016x}.json"
        rel = Path("replays") / name
        write_json(out_root / rel, {"property": pid, "key": key, "what": vio["what"], "case": vio["case"],
                                     "seed": ctx.seed, "tier": ctx.tier,
                                     "replay_cmd": f"./check {pid} --replay {rel}"})
        replay_paths[key] = str(rel)

    evidence = {
        "property_id": pid,
        "tier": ctx.tier,
        "seed": ctx.seed,
        "level": level,
        "coverage": {
            "evaluations": ctx.evaluations,
            "distinct_nontrivial": len(ctx.distinct),
            "rule": getattr(module, "RULE", ""),
            "samples": ctx.samples[:10],
            "observed": dict(sorted(ctx.observed.items())),
            "clauses": dict(sorted(ctx.clauses.items())),
            "reach": dict(sorted(ctx.reach.items())),
            "exhaustive_subspaces": ctx.exhaustive,
            "notes": ctx.notes,
            "verdict": "inconclusive" if ctx.inconclusive else ("violated" if new else "held-on-observed"),
            "inconclusive_reasons": ctx.inconclusive,
            "violation_keys": dict(ctx.violation_counts),
            "known_findings_seen": sorted(known_seen),
            "witnesses": [jsonable(v) for v in ctx.violations[:6]],
        },
        "assumptions": list(getattr(module, "ASSUMES", [])),
        "wall_s": round(wall, 3),
        "violations": sum(n for k, n in ctx.violation_counts.items() if k not in open_keys),
    }
    if ctx.exhaustive:
        evidence["coverage"]["exhaustive"] = bool(getattr(module, "EXHAUSTIVE_CLAIM", False))
    write_json(out_root / "evidence" / f"{pid}.json", evidence)

    print(f"[{pid}] tier={ctx.tier} seed={ctx.seed} evaluations={ctx.evaluations} "
          f"distinct_nontrivial={len(ctx.distinct)} wall={wall:.1f}s")
    for name, count in sorted(ctx.clauses.items()):
        print(f"[{pid}]   clause {name}: {count}")
    for note in ctx.notes:
        print(f"[{pid}]   note: {note}")
    for key, what in known_seen.items():
        print(f"KNOWN-FINDING: property={pid} key={key} {what}")
    if new:
        for key, vio in new.items():
            tag = " (listed as fixed: it has returned)" if key in fixed_keys else ""
            print(f"[{pid}] violation key={key}{tag} count={ctx.violation_counts[key]}: {vio['what']}")
            print(f"VIOLATION property={pid} replay={replay_paths[key]}")
        return 1
    if ctx.inconclusive:
        for reason in ctx.inconclusive:
            print(f"INCONCLUSIVE property={pid} reason={reason}")
        return 2
    print(f"[{pid}] held on everything observed")
    return 0


if __name__ == "__main__":
    sys.exit(main())
