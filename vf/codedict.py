"""Code-derived input dictionary (the classic fuzzing dictionary, harvested at run time from the code under test).

A content-dependent behaviour - a banner that is skipped, a vocabulary that is normalised, a prefix that is stripped,
a key that selects another file layout, a token that switches a mode - needs its trigger text somewhere in the code:
as a string constant, a dict key, a regular expression.  The workloads therefore mix the string constants of the
modules they exercise into the inputs they generate: alone, with changed case, as prefix / suffix of ordinary
payloads, and - for regular-expression sources - their literal fragments followed by typical match material.

Nothing here decides anything: the oracles stay behavioural.  On the unchanged tree the dictionary holds error texts,
enum member names and key names; they are just more payloads.
"""

from __future__ import annotations

import importlib
import re
import types

HANDLER_MODULES = ["aiomysensors.gateway", "aiomysensors.model.message", "aiomysensors.model.node", "aiomysensors.model.const",
                   "aiomysensors.model.protocol", "aiomysensors.model.protocol.protocol_14",
                   "aiomysensors.model.protocol.protocol_15", "aiomysensors.model.protocol.protocol_20",
                   "aiomysensors.model.protocol.protocol_21", "aiomysensors.model.protocol.protocol_22"]
TRANSPORT_MODULES = ["aiomysensors.transport", "aiomysensors.transport.tcp", "aiomysensors.transport.serial",
                     "aiomysensors.transport.mqtt"]
PERSISTENCE_MODULES = ["aiomysensors.persistence", "aiomysensors.model.node"]

_CACHE: dict[tuple, list[str]] = {}


def _strings_of(obj, out: set[str], seen: set[int], depth: int = 0) -> None:
    if id(obj) in seen or depth > 6:
        return
    seen.add(id(obj))
    if isinstance(obj, str):
        out.add(obj)
    elif isinstance(obj, bytes):
        try:
            out.add(obj.decode("utf-8"))
        except UnicodeDecodeError:
            pass
    elif isinstance(obj, re.Pattern):
        out.add(obj.pattern if isinstance(obj.pattern, str) else obj.pattern.decode("utf-8", "replace"))
    elif isinstance(obj, types.CodeType):
        for const in obj.co_consts:
            _strings_of(const, out, seen, depth + 1)
    elif isinstance(obj, (tuple, list, set, frozenset)):
        for item in obj:
            _strings_of(item, out, seen, depth + 1)
    elif isinstance(obj, dict):
        for key, value in obj.items():
            _strings_of(key, out, seen, depth + 1)
            _strings_of(value, out, seen, depth + 1)
    elif isinstance(obj, (types.FunctionType, types.MethodType)):
        func = getattr(obj, "__func__", obj)
        _strings_of(func.__code__, out, seen, depth + 1)
        for default in (func.__defaults__ or ()):
            _strings_of(default, out, seen, depth + 1)
    elif isinstance(obj, (classmethod, staticmethod)):
        _strings_of(obj.__func__, out, seen, depth + 1)


def harvest(module_names: list[str]) -> list[str]:
    """Every string constant reachable from the modules' functions, classes and module-level values."""
    key = tuple(module_names)
    if key in _CACHE:
        return _CACHE[key]
    out: set[str] = set()
    seen: set[int] = set()
    for name in module_names:
        try:
            module = importlib.import_module(name)
        except Exception:  # noqa: BLE001
            continue
        for attr_name, value in list(vars(module).items()):
            if attr_name.startswith("__"):
                continue
            owner = getattr(value, "__module__", name)
            if isinstance(value, type):
                if owner != name:
                    continue
                if issubclass(value, __import__("enum").Enum):
                    continue  # enum member NAMES are not input text
                for member in vars(value).values():
                    _strings_of(member, out, seen)
            elif isinstance(value, (types.FunctionType,)):
                if owner == name:
                    _strings_of(value, out, seen)
            elif isinstance(value, (types.ModuleType,)):
                continue
            else:
                _strings_of(value, out, seen)
    def sentence(text: str) -> bool:
        # docstrings and error sentences: capitalised, several words, full stop - never a trigger
        return text[:1].isupper() and text.rstrip().endswith(".") and len(text.split()) >= 3

    result = sorted(s for s in out if s and len(s) <= 200 and not sentence(s))
    _CACHE[key] = result
    return result


def _numbers_of(obj, out: set, seen: set[int], depth: int = 0) -> None:
    if id(obj) in seen or depth > 6:
        return
    seen.add(id(obj))
    if isinstance(obj, bool):
        return
    if isinstance(obj, (int, float)):
        if obj == obj and abs(obj) < 10**9:
            out.add(obj)
    elif isinstance(obj, types.CodeType):
        for const in obj.co_consts:
            _numbers_of(const, out, seen, depth + 1)
    elif isinstance(obj, (tuple, list, set, frozenset)):
        for item in obj:
            _numbers_of(item, out, seen, depth + 1)
    elif isinstance(obj, dict):
        for key, value in obj.items():
            _numbers_of(key, out, seen, depth + 1)
            _numbers_of(value, out, seen, depth + 1)
    elif isinstance(obj, (types.FunctionType, types.MethodType)):
        func = getattr(obj, "__func__", obj)
        _numbers_of(func.__code__, out, seen, depth + 1)
        for default in (func.__defaults__ or ()):
            _numbers_of(default, out, seen, depth + 1)
        for default in (func.__kwdefaults__ or {}).values():
            _numbers_of(default, out, seen, depth + 1)
    elif isinstance(obj, (classmethod, staticmethod)):
        _numbers_of(obj.__func__, out, seen, depth + 1)


_NUM_CACHE: dict[tuple, list] = {}


def numbers(module_names: list[str]) -> list:
    """Numeric constants of the modules (limits, thresholds, timeouts, window sizes), enum member values excluded."""
    key = tuple(module_names)
    if key in _NUM_CACHE:
        return _NUM_CACHE[key]
    import enum

    out: set = set()
    seen: set[int] = set()
    for name in module_names:
        try:
            module = importlib.import_module(name)
        except Exception:  # noqa: BLE001
            continue
        for attr_name, value in list(vars(module).items()):
            if attr_name.startswith("__"):
                continue
            owner = getattr(value, "__module__", name)
            if isinstance(value, type):
                if owner != name or issubclass(value, enum.Enum):
                    continue
                for member in vars(value).values():
                    if isinstance(member, (int, float)) and not isinstance(member, bool):
                        out.add(member)
                    field_default = getattr(member, "default", None)  # dataclass fields
                    if isinstance(field_default, (int, float)) and not isinstance(field_default, bool):
                        out.add(field_default)
                    _numbers_of(member, out, seen)
            elif isinstance(value, types.FunctionType):
                if owner == name:
                    _numbers_of(value, out, seen)
            elif isinstance(value, types.ModuleType) or isinstance(value, enum.Enum):
                continue
            else:
                _numbers_of(value, out, seen)
    result = sorted(out)
    _NUM_CACHE[key] = result
    return result


_NUM_BASELINE: set | None = None


def number_baseline() -> set:
    global _NUM_BASELINE
    if _NUM_BASELINE is None:
        import json
        from pathlib import Path

        try:
            _NUM_BASELINE = set(json.loads(Path(__file__).with_name("codedict_numbers_baseline.json").read_text()))
        except Exception:  # noqa: BLE001
            _NUM_BASELINE = set()
    return _NUM_BASELINE


ALL_MODULES = HANDLER_MODULES + TRANSPORT_MODULES + ["aiomysensors.persistence"]


def thresholds(defaults: list[int], *, low: int = 2, cap: int = 6000, modules: list[str] | None = None) -> list[int]:
    """Sizes / counts / durations to sweep: the caller's round defaults plus every numeric constant of the code under test
    that the reference tree does not have (a limit, a window, a timeout someone added), each as n-1, n, n+1."""
    novel = [n for n in numbers(modules or ALL_MODULES) if n not in number_baseline()]
    out: dict[int, None] = {}
    for n in [*novel, *defaults]:
        for candidate in (int(n) - 1, int(n), int(n) + 1):
            if low <= candidate <= cap:
                out.setdefault(candidate)
    return list(out)


DURATIONS = [0.5, 1, 2, 5, 9, 11, 15, 20, 29, 31, 45, 59, 61, 90, 119, 121, 299, 301, 599, 601, 899, 901, 1799, 1801, 3599, 3601,
             7201, 43201, 86399, 86401, 90000]


def durations(cap: float = 100000) -> list[float]:
    """Virtual-time stretches to sweep: around the usual timeout values, plus novel numeric constants of the code."""
    out: dict[float, None] = {}
    for n in [*(x for x in novel_numbers() if 0 < x <= cap), *DURATIONS]:
        for candidate in ((n - 1, n + 1) if n >= 5 and n not in DURATIONS else (n,)):
            if 0 < candidate <= cap:
                out.setdefault(candidate)
    return list(out)


def novel_numbers(modules: list[str] | None = None) -> list:
    return [n for n in numbers(modules or ALL_MODULES) if n not in number_baseline()]


_META = re.compile(r"\\[dDwWsSbBAZ]|\(\?[:=!<P][^)]*?\)?|[\[\](){}|^$*+?.\\]")


def fragments(pattern: str) -> list[str]:
    """Literal fragments (>= 2 chars) of something that may be a regular expression or a format string."""
    pieces = [p for p in _META.split(pattern) if len(p) >= 2]
    return pieces


def regex_examples(pattern: str, limit: int = 12) -> list[str]:
    """Strings that match `pattern` when it is read as a regular expression (one per alternative, optional parts once
    absent and once present), built from the stdlib's own parse tree.  Pure-literal patterns give themselves."""
    try:
        import re._parser as sre_parse  # Python 3.11+
    except ImportError:  # pragma: no cover
        import sre_parse  # type: ignore[no-redef]
    try:
        tree = sre_parse.parse(pattern)
    except Exception:  # noqa: BLE001
        return []

    def category(code) -> str:
        name = str(code)
        if "NOT_DIGIT" in name or "NOT_SPACE" in name:
            return "x"
        if "DIGIT" in name:
            return "2"
        if "SPACE" in name:
            return " "
        if "NOT_WORD" in name:
            return "-"
        return "R"

    def expand(items, present: bool) -> list[str]:
        outs = [""]
        for op, arg in items:
            name = str(op)
            if name == "LITERAL":
                parts = [chr(arg)]
            elif name == "NOT_LITERAL":
                parts = ["x" if chr(arg) != "x" else "y"]
            elif name == "ANY":
                parts = ["x"]
            elif name == "IN":
                parts = ["x"]
                for sub_op, sub_arg in arg:
                    sub = str(sub_op)
                    if sub == "LITERAL":
                        parts = [chr(sub_arg)]
                        break
                    if sub == "RANGE":
                        parts = [chr(sub_arg[0])]
                        break
                    if sub == "CATEGORY":
                        parts = [category(sub_arg)]
                        break
            elif name == "CATEGORY":
                parts = [category(arg)]
            elif name in ("MAX_REPEAT", "MIN_REPEAT", "POSSESSIVE_REPEAT"):
                low, _high, sub = arg
                count = low if (low > 0 or not present) else 1
                inner = expand(sub, present)[:3]
                parts = ["".join([piece] * count) for piece in inner] or [""]
            elif name == "SUBPATTERN":
                parts = expand(arg[-1], present)[:4]
            elif name == "BRANCH":
                parts = [piece for alt in arg[1] for piece in expand(alt, present)[:3]]
            elif name in ("AT", "ASSERT", "ASSERT_NOT", "GROUPREF", "GROUPREF_EXISTS", "ATOMIC_GROUP"):
                parts = [""]
            else:
                parts = [""]
            outs = [a + b for a in outs for b in parts][:limit]
        return outs

    found: dict[str, None] = {}
    for present in (True, False):
        for text in expand(list(tree), present):
            if text:
                found.setdefault(text)
    return list(found)[:limit]


_BASELINE: set[str] | None = None


def baseline() -> set[str]:
    """Tokens of the reference tree (tools/gen_codedict_baseline.py, committed): tokens NOT in it are new text in the
    code under test and go first in every dictionary sweep.  Only an ordering hint - nothing is skipped because of it."""
    global _BASELINE
    if _BASELINE is None:
        import json
        from pathlib import Path

        path = Path(__file__).with_name("codedict_baseline.json")
        try:
            _BASELINE = set(json.loads(path.read_text()))
        except Exception:  # noqa: BLE001
            _BASELINE = set()
    return _BASELINE


def novel_first(items: list[str]) -> list[str]:
    base = baseline()
    return [t for t in items if t not in base] + [t for t in items if t in base]


def tokens(module_names: list[str], *, max_len: int = 40) -> list[str]:
    """Input tokens: the constants themselves (short ones), literal fragments of the long / regex-like ones, each in its
    own spelling only (case variants are the caller's business, see variants())."""
    out: dict[str, None] = {}
    for text in harvest(module_names):
        if "\n" in text or len(text) > 120:
            # docstring-like: too long to be an input token, but may hold a regex or a banner fragment in one line
            continue
        if len(text) <= max_len and not text.isidentifier():
            out.setdefault(text)
        elif len(text) <= max_len and text.isidentifier() and not text.islower():
            out.setdefault(text)  # CamelCase / UPPER words (vocabularies); lower snake_case names are attribute names
        for piece in fragments(text):
            if 2 <= len(piece) <= max_len and not piece.isspace():
                out.setdefault(piece)
                out.setdefault(piece.strip()) if piece.strip() else None
        if any(mark in text for mark in ("\\", "(?", "[", "+", "*", "|", "^", "$")):
            for example in regex_examples(text):
                if len(example) <= 3 * max_len:
                    out.setdefault(example)
    return novel_first([t for t in out if t and "\n" not in t])


def variants(token: str) -> list[str]:
    """The spellings a content rule may be written for: as is, lower, upper, swapped, title."""
    seen: dict[str, None] = {}
    for text in (token, token.lower(), token.upper(), token.swapcase(), token.title()):
        seen.setdefault(text)
    return list(seen)


MATCH_MATERIAL = ["2.3.2", "2.0.0", "1.5", "1", "0", "255", "ff8800", " 5003 device /dev/ttyUSB0 [115200 N81]", "=on", ": x"]


def systematic_candidates(module_names: list[str], limit: int) -> list[str]:
    """Deterministic list, most suspicious first: every token that is NOT in the reference tree's dictionary in all its
    spellings, alone and followed by match material; then the reference tokens alone."""
    toks = tokens(module_names)
    base = baseline()
    out: dict[str, None] = {}

    def clean(text: str) -> str:
        return "".join(ch for ch in text if ch not in "\n\r\x0b\x0c\x1c\x1d\x1e\x85\u2028\u2029").rstrip()

    novel = [t for t in toks if t not in base]
    for token in novel:
        for spelling in variants(token):
            out.setdefault(clean(spelling))
    for token in novel:
        for spelling in variants(token)[:2]:
            for material in MATCH_MATERIAL[:6]:
                out.setdefault(clean(spelling + material))
            out.setdefault(clean("x " + spelling + MATCH_MATERIAL[0]))
    for token in toks:
        if token in base:
            out.setdefault(clean(token))
    return [t for t in out if t][:limit]


def payload_candidates(module_names: list[str], rng, count: int) -> list[str]:
    """`count` payload strings built from the dictionary: token variants alone, token + match material, token as prefix /
    suffix of ordinary text.  Free of line terminators (they travel inside one received line)."""
    toks = [t for t in tokens(module_names) if ";" not in t or len(t) < 12]
    if not toks:
        return []
    out = []
    for _ in range(count):
        token = rng.choice(variants(rng.choice(toks)))
        roll = rng.random()
        if roll < 0.35:
            text = token
        elif roll < 0.6:
            text = token + rng.choice(MATCH_MATERIAL)
        elif roll < 0.8:
            text = token + rng.choice(["abc", "21.5", "1", " x", "on"])
        elif roll < 0.9:
            text = rng.choice(["x ", "0;255;3;0;9;", "log: ", ""]) + token + rng.choice(MATCH_MATERIAL)
        else:
            text = token + token
        text = "".join(ch for ch in text if ch not in "\n\r\x0b\x0c\x1c\x1d\x1e\x85\u2028\u2029").rstrip()
        out.append(text)
    return out
